/-
  TE.Lemmas.FamCacheSM — class-level facts for the NON-ADDITIVE classes (state is not a monoid
  image of the data): Max / Min (lattice), Covariance (Chan combine), PeakSignalNoiseRatio
  (additive sums + running min / max of the targets) and Throughput (step ≠ join).

  Built on the relational refinement over histories `AggL.refines_rel` and the C07 theorems
  (`C07.max_merge_tree`, `C07.cov_merge_tree`, `C07.throughput_merge_eq`).
-/
import TE.Lemmas.FamCacheAgg
namespace TE.FamCache
open TE TE.Fams TE.Agg TE.AggL
open TE.Spec.Agg (IsMax IsMin)

/-! ### Max / Min -/

theorem isMax_of_mem_iff {l l' : List Q} (h : ∀ x, x ∈ l ↔ x ∈ l') {m : Q} (hm : IsMax l m) : IsMax l' m :=
  ⟨(h m).mp hm.1, fun x hx => hm.2 x ((h x).mpr hx)⟩

theorem isMin_of_mem_iff {l l' : List Q} (h : ∀ x, x ∈ l ↔ x ∈ l') {m : Q} (hm : IsMin l m) : IsMin l' m :=
  ⟨(h m).mp hm.1, fun x hx => hm.2 x ((h x).mpr hx)⟩

/-- **Max**: two histories (any trees) whose live samples are permutations of each other — in
    particular a merge tree over shards and ONE instance fed the whole stream in any order — compute
    the same value. -/
theorem max_any_history (h h' : Hist (List Q)) (s s' : Option Q)
    (he : eval maxCls h = .ok s) (he' : eval maxCls h' = .ok s')
    (hp : (flatten h).flatten.Perm (flatten h').flatten) : maxCls.out s = maxCls.out s' := by
  have a := C07.max_merge_tree h s he
  have a' := C07.max_merge_tree h' s' he'
  cases s with
  | none =>
    cases s' with
    | none => rfl
    | some m' =>
      have : m' ∈ (flatten h).flatten := hp.mem_iff.mpr a'.1.1
      rw [a.1] at this; simp at this
  | some m =>
    cases s' with
    | none =>
      have : m ∈ (flatten h').flatten := hp.mem_iff.mp a.1.1
      rw [a'.1] at this; simp at this
    | some m' =>
      have := isMax_unique (isMax_of_mem_iff (fun x => hp.mem_iff) a.1) a'.1
      rw [this]

theorem min_any_history (h h' : Hist (List Q)) (s s' : Option Q)
    (he : eval minCls h = .ok s) (he' : eval minCls h' = .ok s')
    (hp : (flatten h).flatten.Perm (flatten h').flatten) : minCls.out s = minCls.out s' := by
  have a := C07.min_merge_tree h s he
  have a' := C07.min_merge_tree h' s' he'
  cases s with
  | none =>
    cases s' with
    | none => rfl
    | some m' =>
      have : m' ∈ (flatten h).flatten := hp.mem_iff.mpr a'.1.1
      rw [a.1] at this; simp at this
  | some m =>
    cases s' with
    | none =>
      have : m ∈ (flatten h').flatten := hp.mem_iff.mp a.1.1
      rw [a'.1] at this; simp at this
    | some m' =>
      have := isMin_unique (isMin_of_mem_iff (fun x => hp.mem_iff) a.1) a'.1
      rw [this]

/-! ### Covariance -/

theorem comoment_col_perm (i j : Nat) {A B : Mat} (h : A.Perm B) :
    comoment (col i A) (col j A) = comoment (col i B) (col j B) := by
  have s1 : (col i A).sum = (col i B).sum := AggL.sum_perm (h.map _)
  have s2 : (col j A).sum = (col j B).sum := AggL.sum_perm (h.map _)
  unfold comoment
  simp only [s1, s2, col_length, h.length_eq]
  unfold col
  rw [zipWith_map_same, zipWith_map_same]
  exact AggL.sum_perm (h.map _)

/-- the `(n, Σx, M2)` summary does not depend on the order of the observations. -/
theorem covBatch_perm (d : Nat) {A B : Mat} (h : A.Perm B) : covBatch d A = covBatch d B := by
  unfold covBatch
  congr 1
  · exact h.length_eq
  · apply List.map_congr_left
    intro j _
    exact AggL.sum_perm (h.map _)
  · apply List.map_congr_left
    intro i _
    apply List.map_congr_left
    intro j _
    exact comoment_col_perm i j h

/-- **Covariance**: two histories (any trees; shards with a single row or without rows included)
    over batches of `d` columns whose live observations are permutations of each other compute the
    same `(mean, covariance)` — or both raise (fewer than two observations). -/
theorem cov_any_history (d : Nat) (h h' : Hist (Nat × Mat)) (s s' : CovS)
    (he : eval covCls h = .ok s) (he' : eval covCls h' = .ok s')
    (hd : ∀ b ∈ flatten h, b.1 = d) (hd' : ∀ b ∈ flatten h', b.1 = d)
    (hp : (rowsOf (flatten h)).Perm (rowsOf (flatten h'))) : covCls.out s = covCls.out s' := by
  rw [C07.cov_merge_tree d h s he hd, C07.cov_merge_tree d h' s' he' hd', covBatch_perm d hp]

mutual
/-- every history of `Covariance` runs (`update` never fails). -/
theorem cov_eval_ok : ∀ h : Hist (Nat × Mat), ∃ s, eval covCls h = .ok s
  | .fresh => ⟨_, rfl⟩
  | .update h b => by
    obtain ⟨s, e⟩ := cov_eval_ok h
    exact ⟨covUpdate b.1 s b.2, by simp only [eval, e, bind, Except.bind]; rfl⟩
  | .merge h hs => by
    obtain ⟨s, e⟩ := cov_eval_ok h
    obtain ⟨ss, es⟩ := cov_evalList_ok hs
    exact ⟨ss.foldl covCombine s, by simp only [eval, e, es, bind, Except.bind]; rfl⟩
  | .reset h => by
    obtain ⟨s, e⟩ := cov_eval_ok h
    exact ⟨covInit, by simp only [eval, e, bind, Except.bind]; rfl⟩
theorem cov_evalList_ok : ∀ hs : List (Hist (Nat × Mat)), ∃ ss, evalList covCls hs = .ok ss
  | [] => ⟨[], rfl⟩
  | h :: hs => by
    obtain ⟨s, e⟩ := cov_eval_ok h
    obtain ⟨ss, es⟩ := cov_evalList_ok hs
    exact ⟨s :: ss, by simp only [evalList, e, es, bind, Except.bind]⟩
end

/-! ### PeakSignalNoiseRatio -/

def psnrInputs (l : List (List Q × List Q)) : List Q := (l.map (·.1)).flatten
def psnrTargets (l : List (List Q × List Q)) : List Q := (l.map (·.2)).flatten
def sseOf (l : List (List Q × List Q)) : Q := (l.map fun b => (psnrUpdate b.1 b.2).1).sum
def nOf (l : List (List Q × List Q)) : Q := (l.map fun b => (psnrUpdate b.1 b.2).2).sum

theorem sseOf_append (a b : List (List Q × List Q)) : sseOf (a ++ b) = sseOf a + sseOf b := by
  simp [sseOf, List.sum_append]
theorem nOf_append (a b : List (List Q × List Q)) : nOf (a ++ b) = nOf a + nOf b := by
  simp [nOf, List.sum_append]
theorem psnrTargets_append (a b : List (List Q × List Q)) :
    psnrTargets (a ++ b) = psnrTargets a ++ psnrTargets b := by simp [psnrTargets]

/-- the squared error / element count of the concatenated stream are the sums over the batches. -/
theorem psnrUpdate_cat (l : List (List Q × List Q)) (hl : ∀ b ∈ l, b.1.length = b.2.length) :
    psnrUpdate (psnrInputs l) (psnrTargets l) = (sseOf l, nOf l) := by
  induction l with
  | nil => simp [psnrUpdate, psnrInputs, psnrTargets, sseOf, nOf]
  | cons b l ih =>
    have hb := hl b (List.mem_cons_self ..)
    have ih' := ih (fun b' hb' => hl b' (List.mem_cons_of_mem _ hb'))
    simp only [psnrUpdate, psnrInputs, psnrTargets, sseOf, nOf, List.map_cons, List.flatten_cons,
      List.sum_cons, Prod.mk.injEq] at ih' ⊢
    rw [List.zipWith_append hb, List.sum_append, ih'.1, List.length_append, Rat.natCast_add, ih'.2]
    exact ⟨rfl, rfl⟩

/-- `none` before any target, otherwise the extremum of the targets seen. -/
def OptExt (IsExt : List Q → Q → Prop) (o : Option Q) (T : List Q) : Prop :=
  match o with
  | none => T = []
  | some m => IsExt T m

theorem optExt_opick (pick : Q → Q → Q) (IsExt : List Q → Q → Prop)
    (happ : ∀ l₁ l₂ a b, IsExt l₁ a → IsExt l₂ b → IsExt (l₁ ++ l₂) (pick a b))
    {x y : Option Q} {A B : List Q} (hx : OptExt IsExt x A) (hy : OptExt IsExt y B) :
    OptExt IsExt (opick pick x y) (A ++ B) := by
  cases x with
  | none =>
    simp only [OptExt] at hx
    subst hx
    cases y with
    | none => simp only [OptExt] at hy; subst hy; simp [opick, OptExt]
    | some b => simpa [opick, OptExt] using hy
  | some a =>
    cases y with
    | none => simp only [OptExt] at hy; subst hy; simpa [opick, OptExt] using hx
    | some b => exact happ _ _ a b hx hy

theorem optExt_min_comm {x : Option Q} {A B : List Q} (h : OptExt IsMin x (A ++ B)) : OptExt IsMin x (B ++ A) := by
  cases x with
  | none => simp only [OptExt] at h ⊢; simp_all
  | some m => exact isMin_of_mem_iff (fun z => by simp [or_comm]) h

theorem optExt_max_comm {x : Option Q} {A B : List Q} (h : OptExt IsMax x (A ++ B)) : OptExt IsMax x (B ++ A) := by
  cases x with
  | none => simp only [OptExt] at h ⊢; simp_all
  | some m => exact isMax_of_mem_iff (fun z => by simp [or_comm]) h

/-- what every reachable state of `PeakSignalNoiseRatio(data_range=None)` knows about the live batches. -/
structure PsnrAuto (s : PsnrS) (l : List (List Q × List Q)) : Prop where
  lens : ∀ b ∈ l, b.1.length = b.2.length
  sse : s.sse = sseOf l
  n : s.n = nOf l
  lo : OptExt IsMin s.lo (psnrTargets l)
  hi : OptExt IsMax s.hi (psnrTargets l)
  range : psnrTargets l ≠ [] → s.range = boundsRange s.lo s.hi

/-- the same without the `data_range` clause (invariant of the fold inside `merge_state`). -/
structure PsnrAuto0 (s : PsnrS) (l : List (List Q × List Q)) : Prop where
  lens : ∀ b ∈ l, b.1.length = b.2.length
  sse : s.sse = sseOf l
  n : s.n = nOf l
  lo : OptExt IsMin s.lo (psnrTargets l)
  hi : OptExt IsMax s.hi (psnrTargets l)

/-- one step of the fold inside `merge_state` (`data_range=None`). -/
def psnrJoin (a m : PsnrS) : PsnrS :=
  { a with sse := a.sse + m.sse, n := a.n + m.n, lo := opick qmin a.lo m.lo, hi := opick qmax a.hi m.hi }

theorem psnr_auto_fold (ss : List PsnrS) (ls : List (List Q × List Q)) (h : RelL PsnrAuto ss ls) :
    ∀ (s : PsnrS) (l : List (List Q × List Q)), PsnrAuto0 s l →
      PsnrAuto0 (ss.foldl psnrJoin s) (l ++ ls) := by
  induction h with
  | nil => intro s l hs; simpa using hs
  | cons h₁ _ ih =>
    intro s l hs
    simp only [List.foldl_cons, ← List.append_assoc]
    apply ih
    exact {
      lens := by
        intro b hb
        rcases List.mem_append.mp hb with hb | hb
        · exact hs.lens b hb
        · exact h₁.lens b hb
      sse := by rw [sseOf_append, ← hs.sse, ← h₁.sse]; rfl
      n := by rw [nOf_append, ← hs.n, ← h₁.n]; rfl
      lo := by
        rw [psnrTargets_append]
        exact optExt_opick qmin IsMin (fun _ _ _ _ => isMin_append) hs.lo h₁.lo
      hi := by
        rw [psnrTargets_append]
        exact optExt_opick qmax IsMax (fun _ _ _ _ => isMax_append) hs.hi h₁.hi }

theorem psnr_auto_refines : ∀ (h : Hist (List Q × List Q)) (s : PsnrS),
    eval (psnrCls none) h = .ok s → PsnrAuto s (flatten h) := by
  apply refines_rel (psnrCls none) PsnrAuto
  · exact {
      lens := by simp
      sse := by simp [psnrCls, psnrImpl, psnrInit, sseOf]
      n := by simp [psnrCls, psnrImpl, psnrInit, nOf]
      lo := by simp [psnrCls, psnrImpl, psnrInit, OptExt, psnrTargets]
      hi := by simp [psnrCls, psnrImpl, psnrInit, OptExt, psnrTargets]
      range := by simp [psnrTargets] }
  · intro s l b s' hs hu
    simp only [psnrCls, psnrImpl, Option.isNone_none] at hu
    split at hu
    · rename_i hlen
      simp only [psnrUpd, if_true] at hu
      cases hmin : reduceBy qmin b.2 with
      | none => simp [hmin] at hu
      | some lo =>
        cases hmax : reduceBy qmax b.2 with
        | none => simp [hmin, hmax] at hu
        | some hi =>
          simp only [hmin, hmax, Except.ok.injEq] at hu
          subst hu
          have tb : psnrTargets [b] = b.2 := by simp [psnrTargets]
          exact {
            lens := by
              intro b' hb'
              rcases List.mem_append.mp hb' with hb' | hb'
              · exact hs.lens b' hb'
              · rw [List.mem_singleton.mp hb']; exact hlen
            sse := by simp only [sseOf_append, hs.sse]; simp [sseOf, Rat.add_zero]
            n := by simp only [nOf_append, hs.n]; simp [nOf, Rat.add_zero]
            lo := by
              rw [psnrTargets_append, tb]
              apply optExt_min_comm
              exact optExt_opick qmin IsMin (fun _ _ _ _ => isMin_append)
                (show OptExt IsMin (some lo) b.2 from reduce_min b.2 lo hmin) hs.lo
            hi := by
              rw [psnrTargets_append, tb]
              apply optExt_max_comm
              exact optExt_opick qmax IsMax (fun _ _ _ _ => isMax_append)
                (show OptExt IsMax (some hi) b.2 from reduce_max b.2 hi hmax) hs.hi
            range := fun _ => rfl }
    · cases hu
  · intro s l ss ls s' hs hss hm
    simp only [psnrCls, psnrImpl, Option.isNone_none, psnrMrg, if_true, Except.ok.injEq] at hm
    subst hm
    have f := psnr_auto_fold ss ls hss s l ⟨hs.lens, hs.sse, hs.n, hs.lo, hs.hi⟩
    unfold psnrJoin at f
    exact { lens := f.lens, sse := f.sse, n := f.n, lo := f.lo, hi := f.hi, range := fun _ => rfl }

theorem boundsRange_some (lo hi : Q) : boundsRange (some lo) (some hi) = .val (hi - lo) := by
  simp [boundsRange, extOut, xsub, xneg, xadd, Rat.sub_eq_add_neg]

/-- **PSNR, `data_range=None`, any merge tree**: after any history of `update` / `merge_state` /
    `reset` on any number of instances with at least one live target element, `compute()` is the
    functional on ALL live data (concatenated in merge order): summed squared error, element count,
    and `max − min` of all live targets. -/
theorem psnr_merge_tree_auto (h : Hist (List Q × List Q)) (s : PsnrS)
    (he : eval (psnrCls none) h = .ok s) (hne : psnrTargets (flatten h) ≠ []) :
    (psnrCls none).out s = psnrFn (psnrInputs (flatten h)) (psnrTargets (flatten h)) none := by
  have r := psnr_auto_refines h s he
  obtain ⟨hi, hhi⟩ := (C07.max_defined_iff qmax _).mpr hne
  obtain ⟨lo, hlo⟩ := (C07.max_defined_iff qmin _).mpr hne
  have e := psnrUpdate_cat _ r.lens
  have ehi : s.hi = some hi := by
    have := r.hi
    cases hs : s.hi with
    | none => rw [hs] at this; exact absurd this hne
    | some m => rw [hs] at this; rw [isMax_unique this (reduce_max _ hi hhi)]
  have elo : s.lo = some lo := by
    have := r.lo
    cases hs : s.lo with
    | none => rw [hs] at this; exact absurd this hne
    | some m => rw [hs] at this; rw [isMin_unique this (reduce_min _ lo hlo)]
  simp only [psnrFn, hhi, hlo, e]
  show Except.ok (psnrArg s.sse s.n s.range) = _
  rw [r.range hne, r.sse, r.n, ehi, elo, boundsRange_some]

/-- the canonical form of `compute()` used for the order-insensitivity statement. -/
theorem psnr_out_auto (h : Hist (List Q × List Q)) (s : PsnrS)
    (he : eval (psnrCls none) h = .ok s) (hi lo : Q)
    (hhi : IsMax (psnrTargets (flatten h)) hi) (hlo : IsMin (psnrTargets (flatten h)) lo) :
    (psnrCls none).out s = .ok (psnrArg (sseOf (flatten h)) (nOf (flatten h)) (.val (hi - lo))) := by
  have hne : psnrTargets (flatten h) ≠ [] := by intro e; rw [e] at hhi; exact absurd hhi.1 (by simp)
  have r := psnr_auto_refines h s he
  have ehi : s.hi = some hi := by
    have := r.hi
    cases hs : s.hi with
    | none => rw [hs] at this; exact absurd this hne
    | some m => rw [hs] at this; rw [isMax_unique this hhi]
  have elo : s.lo = some lo := by
    have := r.lo
    cases hs : s.lo with
    | none => rw [hs] at this; exact absurd this hne
    | some m => rw [hs] at this; rw [isMin_unique this hlo]
  show Except.ok (psnrArg s.sse s.n s.range) = _
  rw [r.range hne, r.sse, r.n, ehi, elo, boundsRange_some]

theorem mem_psnrTargets (l : List (List Q × List Q)) (x : Q) :
    x ∈ psnrTargets l ↔ ∃ b ∈ l, x ∈ b.2 := by
  simp [psnrTargets, List.mem_flatten]
  constructor
  · rintro ⟨t, ⟨a, hab⟩, hx⟩; exact ⟨a, t, hab, hx⟩
  · rintro ⟨a, t, hab, hx⟩; exact ⟨t, ⟨a, hab⟩, hx⟩

/-- **PSNR, `data_range=None`, any order**: two histories (any trees) whose live batches are
    permutations of each other — e.g. a merge tree over shards and ONE instance fed the stream in any
    order — compute the same value. -/
theorem psnr_any_history_auto (h h' : Hist (List Q × List Q)) (s s' : PsnrS)
    (he : eval (psnrCls none) h = .ok s) (he' : eval (psnrCls none) h' = .ok s')
    (hp : (flatten h).Perm (flatten h')) (hne : psnrTargets (flatten h) ≠ []) :
    (psnrCls none).out s = (psnrCls none).out s' := by
  obtain ⟨hi, hhi⟩ := (C07.max_defined_iff qmax _).mpr hne
  obtain ⟨lo, hlo⟩ := (C07.max_defined_iff qmin _).mpr hne
  have m : ∀ x, x ∈ psnrTargets (flatten h) ↔ x ∈ psnrTargets (flatten h') := by
    intro x
    rw [mem_psnrTargets, mem_psnrTargets]
    constructor
    · rintro ⟨b, hb, hx⟩; exact ⟨b, hp.mem_iff.mp hb, hx⟩
    · rintro ⟨b, hb, hx⟩; exact ⟨b, hp.mem_iff.mpr hb, hx⟩
  rw [psnr_out_auto h s he hi lo (reduce_max _ hi hhi) (reduce_min _ lo hlo),
    psnr_out_auto h' s' he' hi lo (isMax_of_mem_iff m (reduce_max _ hi hhi)) (isMin_of_mem_iff m (reduce_min _ lo hlo))]
  simp only [sseOf, nOf, AggL.sum_perm (hp.map _)]

/-- reachable states of `PeakSignalNoiseRatio(data_range = r)`. -/
structure PsnrFixed (r : Q) (s : PsnrS) (l : List (List Q × List Q)) : Prop where
  lens : ∀ b ∈ l, b.1.length = b.2.length
  sse : s.sse = sseOf l
  n : s.n = nOf l
  range : s.range = .val r

theorem psnr_fixed_refines (r : Q) : ∀ (h : Hist (List Q × List Q)) (s : PsnrS),
    eval (psnrCls (some r)) h = .ok s → PsnrFixed r s (flatten h) := by
  apply refines_rel (psnrCls (some r)) (PsnrFixed r)
  · exact ⟨by simp, by simp [psnrCls, psnrImpl, psnrInit, sseOf], by simp [psnrCls, psnrImpl, psnrInit, nOf],
      by simp [psnrCls, psnrImpl, psnrInit]⟩
  · intro s l b s' hs hu
    simp only [psnrCls, psnrImpl, Option.isNone_some] at hu
    split at hu
    · rename_i hlen
      simp only [psnrUpd, Bool.false_eq_true, if_false, Except.ok.injEq] at hu
      subst hu
      exact {
        lens := by
          intro b' hb'
          rcases List.mem_append.mp hb' with hb' | hb'
          · exact hs.lens b' hb'
          · rw [List.mem_singleton.mp hb']; exact hlen
        sse := by simp only [sseOf_append, hs.sse]; simp [sseOf, Rat.add_zero]
        n := by simp only [nOf_append, hs.n]; simp [nOf, Rat.add_zero]
        range := hs.range }
    · cases hu
  · intro s l ss ls s' hs hss hm
    simp only [psnrCls, psnrImpl, Option.isNone_some, psnrMrg, Bool.false_eq_true, if_false, Except.ok.injEq] at hm
    subst hm
    induction hss generalizing s l with
    | nil => simpa using hs
    | cons h₁ _ ih =>
      simp only [List.foldl_cons, ← List.append_assoc]
      apply ih
      exact {
        lens := by
          intro b hb
          rcases List.mem_append.mp hb with hb | hb
          · exact hs.lens b hb
          · exact h₁.lens b hb
        sse := by simp only [sseOf_append, hs.sse, h₁.sse]
        n := by simp only [nOf_append, hs.n, h₁.n]
        range := hs.range }

/-- **PSNR, fixed `data_range = r > 0`, any merge tree**: `compute()` is the functional on all live data. -/
theorem psnr_merge_tree_fixed (r : Q) (hr : 0 < r) (h : Hist (List Q × List Q)) (s : PsnrS)
    (he : eval (psnrCls (some r)) h = .ok s) :
    (psnrCls (some r)).out s = psnrFn (psnrInputs (flatten h)) (psnrTargets (flatten h)) (some r) := by
  have q := psnr_fixed_refines r h s he
  have a : ¬ r ≤ 0 := Rat.not_le.mpr hr
  simp only [psnrFn, a, if_false, psnrUpdate_cat _ q.lens]
  show Except.ok (psnrArg s.sse s.n s.range) = _
  rw [q.sse, q.n, q.range]

/-- … and it does not depend on the order of the live batches. -/
theorem psnr_any_history_fixed (r : Q) (h h' : Hist (List Q × List Q)) (s s' : PsnrS)
    (he : eval (psnrCls (some r)) h = .ok s) (he' : eval (psnrCls (some r)) h' = .ok s')
    (hp : (flatten h).Perm (flatten h')) :
    (psnrCls (some r)).out s = (psnrCls (some r)).out s' := by
  have q := psnr_fixed_refines r h s he
  have q' := psnr_fixed_refines r h' s' he'
  show Except.ok (psnrArg s.sse s.n s.range) = Except.ok (psnrArg s'.sse s'.n s'.range)
  rw [q.sse, q.n, q.range, q'.sse, q'.n, q'.range]
  simp only [sseOf, nOf, AggL.sum_perm (hp.map _)]

/-! ### Throughput: counts add, elapsed time adds on `update` and joins by `max` on `merge_state` -/

mutual
/-- the elapsed time a history stands for: `update` adds, `merge_state` keeps the slowest of the
    target and its sources (the documented convention), `reset` forgets. -/
def thrElapsed : Hist (Q × Q) → Q
  | .fresh => 0
  | .update h b => thrElapsed h + b.2
  | .merge h hs => thrElapsedMax hs (thrElapsed h)
  | .reset _ => 0
def thrElapsedMax : List (Hist (Q × Q)) → Q → Q
  | [], a => a
  | h :: hs, a => thrElapsedMax hs (qmax a (thrElapsed h))
end

theorem thrElapsedMax_eq_foldl (hs : List (Hist (Q × Q))) (a : Q) :
    thrElapsedMax hs a = (hs.map thrElapsed).foldl qmax a := by
  induction hs generalizing a with
  | nil => rfl
  | cons h hs ih => simp [thrElapsedMax, ih]

/-- the elapsed time of a merge is the maximum over target and sources. -/
theorem thrElapsed_merge_isMax (h : Hist (Q × Q)) (hs : List (Hist (Q × Q))) :
    IsMax (thrElapsed h :: hs.map thrElapsed) (thrElapsed (.merge h hs)) := by
  rw [thrElapsed, thrElapsedMax_eq_foldl]
  exact ⟨foldl_pick_mem qmax qmax_sel _ _,
    foldl_pick_bound qmax (· ≤ ·) (fun _ => Rat.le_refl) (fun _ _ _ => Rat.le_trans) qmax_ub _ _⟩

mutual
/-- **Throughput, any history**: the state is (sum of the counts of all live updates, elapsed time of
    the history as specified by `thrElapsed`). -/
theorem thr_refines : ∀ (h : Hist (Q × Q)) (s : Q × Q), eval thrCls h = .ok s →
    s.1 = ((flatten h).map (·.1)).sum ∧ s.2 = thrElapsed h
  | .fresh, s, he => by
    simp only [eval, Except.ok.injEq] at he
    subst he
    simp [thrImpl, flatten, thrElapsed]
  | .update h b, s, he => by
    simp only [eval] at he
    obtain ⟨s₀, h₀, h₁⟩ := bind_ok he
    obtain ⟨i₁, i₂⟩ := thr_refines h s₀ h₀
    simp only [thrImpl, thrUpd] at h₁
    split at h₁
    · cases h₁
    · split at h₁
      · cases h₁
      · simp only [Except.ok.injEq] at h₁
        subst h₁
        simp [flatten, thrElapsed, i₁, i₂, List.sum_append, Rat.add_zero]
  | .merge h hs, s, he => by
    simp only [eval] at he
    obtain ⟨s₀, h₀, h₁⟩ := bind_ok he
    obtain ⟨ss, h₂, h₃⟩ := bind_ok h₁
    obtain ⟨i₁, i₂⟩ := thr_refines h s₀ h₀
    have := thr_refinesList hs ss h₂ s₀
    simp only [thrImpl, Except.ok.injEq] at h₃
    subst h₃
    rw [this]
    simp [flatten, thrElapsed, i₁, i₂, List.sum_append]
  | .reset h, s, he => by
    simp only [eval] at he
    obtain ⟨s₀, _, h₁⟩ := bind_ok he
    simp only [Except.ok.injEq] at h₁
    subst h₁
    simp [thrImpl, flatten, thrElapsed]
theorem thr_refinesList : ∀ (hs : List (Hist (Q × Q))) (ss : List (Q × Q)),
    evalList thrCls hs = .ok ss → ∀ a : Q × Q,
      thrMrg a ss = (a.1 + ((flattenList hs).map (·.1)).sum, thrElapsedMax hs a.2)
  | [], ss, he, a => by
    simp only [evalList, Except.ok.injEq] at he
    subst he
    simp [thrMrg, flattenList, thrElapsedMax, Rat.add_zero]
  | h :: hs, ss, he, a => by
    simp only [evalList] at he
    obtain ⟨s₀, h₀, h₁⟩ := bind_ok he
    obtain ⟨ss', h₂, h₃⟩ := bind_ok h₁
    simp only [Except.ok.injEq] at h₃
    subst h₃
    obtain ⟨i₁, i₂⟩ := thr_refines h s₀ h₀
    have := thr_refinesList hs ss' h₂ (a.1 + s₀.1, qmax a.2 s₀.2)
    simp only [thrMrg, List.foldl_cons] at this ⊢
    rw [this]
    simp only [flattenList, thrElapsedMax, List.map_append, List.sum_append, i₁, i₂, Prod.mk.injEq, and_true]
    grind
end

/-- `compute()` of any history: total count over the history's elapsed time (`0.0` before any time). -/
theorem thr_out (h : Hist (Q × Q)) (s : Q × Q) (he : eval thrCls h = .ok s) :
    thrCls.out s = .ok (if thrElapsed h = 0 then 0 else ((flatten h).map (·.1)).sum / thrElapsed h) := by
  obtain ⟨i₁, i₂⟩ := thr_refines h s he
  show Except.ok (thrOut s) = _
  simp [thrOut, i₁, i₂]

/-- ONE instance: the elapsed time of a stream of updates is the sum of the elapsed times. -/
theorem thrElapsed_single (bs : List (Q × Q)) : thrElapsed (single bs) = (bs.map (·.2)).sum := by
  unfold single
  suffices ∀ (h : Hist (Q × Q)), thrElapsed (bs.foldl Hist.update h) = thrElapsed h + (bs.map (·.2)).sum by
    simpa [thrElapsed, Rat.zero_add] using this Hist.fresh
  induction bs with
  | nil => intro h; simp [Rat.add_zero]
  | cons b bs ih => intro h; simp only [List.foldl_cons, ih, thrElapsed, List.map_cons, List.sum_cons]; grind

/-- **C12 for Throughput**: one instance fed the same updates in any order computes the same value. -/
theorem thr_single_any_order (bs bs' : List (Q × Q)) (s s' : Q × Q) (hp : bs.Perm bs')
    (he : eval thrCls (single bs) = .ok s) (he' : eval thrCls (single bs') = .ok s') :
    thrCls.out s = thrCls.out s' := by
  rw [thr_out _ s he, thr_out _ s' he', thrElapsed_single, thrElapsed_single, flatten_single, flatten_single,
    AggL.sum_perm (hp.map _), AggL.sum_perm (hp.map (·.1))]

/-- the documented deviation, concretely: two shards `(3 items, 2 s)`, `(5 items, 4 s)` merged report
    `8 / max(2, 4) = 2` items per second; one instance that saw both updates reports `8 / 6`. -/
theorem thr_merge_deviation_witness :
    ((eval thrCls (.merge (.update .fresh (3, 2)) [.update .fresh (5, 4)])).toOption.bind
        fun s => (thrCls.out s).toOption) = some 2 ∧
    ((eval thrCls (single [(3, 2), (5, 4)])).toOption.bind fun s => (thrCls.out s).toOption) = some (4 / 3) := by
  decide +kernel

end TE.FamCache
