/-
  TE.Lemmas.SyncListAll — `_sync_list_tensor_states` and `_sync_dict_tensor_states` on a whole group.
-/
import TE.Lemmas.SyncList
namespace TE.Sync
open TE.Spec.Sync

theorem foldl_max_le_acc (l : List Nat) (a : Nat) : a ≤ l.foldl max a := by
  induction l generalizing a with
  | nil => exact Nat.le_refl _
  | cons x l ih => exact Nat.le_trans (Nat.le_max_left a x) (ih _)

theorem le_foldl_max (l : List Nat) (a : Nat) : ∀ x ∈ l, x ≤ l.foldl max a := by
  induction l generalizing a with
  | nil => intro x hx; simp at hx
  | cons y l ih =>
    intro x hx
    rcases List.mem_cons.mp hx with rfl | hx
    · exact Nat.le_trans (Nat.le_max_right a x) (foldl_max_le_acc l _)
    · exact ih _ x hx

/-- dtype / shape a member takes from its own first element (no rank is empty). -/
def ownD (dt : DType) (xs : List Tensor) : DType := match xs with | x :: _ => x.dtype | [] => dt
def ownS (k : Nat) (xs : List Tensor) : List Nat := match xs with | x :: _ => x.shape | [] => List.replicate k 0

section
variable (g : List Nat) (n : Nat) (dst : Option Nat) (junk : Nat → Q) (xs : Nat → List Tensor)

/-- all rounds from the initial column: receiving members end with every member's own list. -/
theorem yields_listGo (hg : IsGroup g n) (hd : DstIn n dst) (dt : DType) (k : Nat)
    (hx : ListSendable n xs dt k) (D : Nat → DType) (S : Nat → List Nat)
    (hD : ∀ i, i < n → D i = dt ∧ (S i).length = k)
    (hne : ∃ j, j < n ∧ xs j ≠ []) :
    Yields g ((List.range n).map fun i =>
        listGo (envOf g n dst junk i) (xs i) (col0 n) ((List.range n).map fun j => (xs j).length) (D i) (S i))
      ((List.range n).map fun i => colAfter n dst (fun j => TState.list (xs j)) i) := by
  let m := ((List.range n).map fun j => (xs j).length).foldl max 0
  have hm : ∀ j, j < n → (xs j).length ≤ m := fun j hj =>
    le_foldl_max _ 0 _ (List.mem_map.mpr ⟨j, List.mem_range.mpr hj, rfl⟩)
  have hm0 : m ≠ 0 := by
    obtain ⟨j, hj, hjne⟩ := hne
    have := hm j hj
    have : 0 < (xs j).length := List.length_pos_iff.mpr hjne
    omega
  have h := yields_listRounds g n dst junk xs D S hg hd dt k hx hD (col0 n) (List.range m) (fun _ => placeholder)
  have hcol : ∀ i, colR n dst (col0 n) (fun _ => placeholder) i = col0 n := by
    intro i; simp only [colR, col0_eq]; split <;> rfl
  simp only [hcol] at h
  have hfin : ∀ i, colR n dst (col0 n) ((List.range m).foldl (stepF g n dst junk xs D S) fun _ => placeholder) i
      = colAfter n dst (fun j => TState.list (xs j)) i := by
    intro i
    simp only [colR, colAfter]
    split
    · simp only [colF]
      apply List.map_congr_left
      intro j hj
      rw [rounds_cell g n dst junk xs D S (fun _ => placeholder) (fun _ => rfl) m j]
      simp only [hm0, if_false]
      rw [List.take_of_length_le (hm j (List.mem_range.mp hj))]
    · rfl
  simp only [hfin] at h
  exact h

/-- **`_sync_list_tensor_states`**: per-rank lengths are kept (all-empty and some-empty included),
    element `i` of member `j` is member `j`'s `i`-th tensor, dummies never surface. -/
theorem yields_syncList (hg : IsGroup g n) (hd : DstIn n dst) (dt : DType) (k : Nat)
    (hx : ListSendable n xs dt k) :
    Yields g ((List.range n).map fun i => syncList (envOf g n dst junk i) (xs i) (col0 n))
      ((List.range n).map fun i => colAfter n dst (fun j => TState.list (xs j)) i) := by
  simp only [syncList]
  apply Yields.bind_map (G := fun _ => (List.range n).map fun j => Obj.int ((xs j).length : Int))
    (yields_allGatherObj g n _)
  have hmapM : ((List.range n).map fun j => Obj.int ((xs j).length : Int)).mapM objNat
      = some ((List.range n).map fun j => (xs j).length) :=
    mapM_map_some _ _ _ _ (fun _ _ => by simp [objNat])
  simp only [syncListK, hmapM]
  by_cases hz : ((List.range n).map fun j => (xs j).length).any (· == 0) = true
  · -- some member is empty: negotiate dtype and shape
    simp only [hz, if_true]
    apply Yields.bind_map (G := fun _ => (lastSome (fun j => (xs j).head?) n).map fun mx => (mx.2.dtype, mx.2.shape))
      (yields_syncDtypeShape g n hg dst junk fun j => (xs j).head?)
    have hspec := lastSome_spec (fun j => (xs j).head?) n
    cases hl : lastSome (fun j => (xs j).head?) n with
    | none =>
      -- every member is empty: the receiving members get `[]`
      rw [hl] at hspec
      have hall : ∀ j, j < n → xs j = [] := fun j hj => List.head?_eq_none_iff.mp (hspec j hj)
      simp only [Option.map_none, syncListDS, envOf_recv]
      rw [List.map_congr_left (g := fun i => Prog.done (colAfter n dst (fun j => TState.list (xs j)) i))]
      · exact yields_done g (List.range n) _
      · intro i _
        simp only [colAfter]
        congr 1
        split
        · simp only [col0, colF, List.map_replicate]
          rw [show List.replicate n (TState.list []) = (List.range n).map (fun _ => TState.list []) by
            simp [List.map_const']]
          apply List.map_congr_left
          intro j hj
          rw [hall j (List.mem_range.mp hj)]
        · rfl
    | some mx =>
      obtain ⟨m, x⟩ := mx
      rw [hl] at hspec
      obtain ⟨hmn, hHm, _⟩ := hspec
      have hxm : x ∈ xs m := List.mem_of_mem_head? hHm
      have hxs := hx m hmn x hxm
      simp only [Option.map_some, syncListDS]
      exact yields_listGo g n dst junk xs hg hd dt k hx (fun _ => x.dtype) (fun _ => x.shape)
        (fun _ _ => ⟨hxs.1, hxs.2.1⟩) ⟨m, hmn, List.ne_nil_of_mem hxm⟩
  · -- no member is empty: everybody reads dtype and shape off its own first element
    simp only [hz, Bool.false_eq_true, if_false]
    cases n with
    | zero => rfl
    | succ n' =>
      have hpos : ∀ j, j < n' + 1 → xs j ≠ [] := by
        intro j hj hnil
        apply hz
        rw [List.any_eq_true]
        exact ⟨(xs j).length, List.mem_map.mpr ⟨j, List.mem_range.mpr hj, rfl⟩, by simp [hnil]⟩
      rw [List.map_congr_left (g := fun i =>
        listGo (envOf g (n' + 1) dst junk i) (xs i) (col0 (n' + 1)) ((List.range (n' + 1)).map fun j => (xs j).length)
          (ownD dt (xs i)) (ownS k (xs i)))]
      · apply yields_listGo g (n' + 1) dst junk xs hg hd dt k hx _ _ _ ⟨0, Nat.succ_pos _, hpos 0 (Nat.succ_pos _)⟩
        intro i hi
        cases hxi : xs i with
        | nil => exact absurd hxi (hpos i hi)
        | cons x rest =>
          have := hx i hi x (by rw [hxi]; exact List.mem_cons_self ..)
          exact ⟨this.1, this.2.1⟩
      · intro i hi
        cases hxi : xs i with
        | nil => exact absurd hxi (hpos i (List.mem_range.mp hi))
        | cons x rest => rfl
end

end TE.Sync
