/-
  TE.Lemmas.ShapeAccepts — `Accepts_<stem>` : an explicit, readable characterisation of the
  argument shapes each torcheval check helper lets through (what the CODE does, as opposed to
  `TE.ShapeSpec.Valid_<stem>`, what the DOCSTRING says).  TE.Props.C18 proves
  `Gen.check_<stem> … = .ok ↔ Accepts_<stem> …` against the regenerated translation of the helper.
  Value oracles are taken at "values in range" (false) in those theorems.  Core Lean only.
-/
import TE.Model.Shape
import TE.Spec.Shape
import TE.Lemmas.Shape
namespace TE.ShapeSpec
open TE TE.Shape

/-- equal shapes, 1-D -/
def Accepts_1d (input target : Shp) : Bool := input == target && ndim target == 1

/-- target 1-D, same first extent, input 1-D or (n, C) with C = num_classes when given -/
def Accepts_multiclass (input target : Shp) (num_classes : Option Int) : Bool :=
  match input, target with
  | [n], [m] => n == m
  | [n, c], [m] => n == m && (num_classes == none || num_classes == some (Int.ofNat c))
  | _, _ => false

def Accepts_accuracy (input target : Shp) (num_classes : Option Int) (k : Int) : Bool :=
  Accepts_multiclass input target num_classes && (decide (k ≤ 1) || ndim input == 2)

def Accepts_confusion_matrix (input target : Shp) (num_classes : Option Int) : Bool :=
  match input, target with
  | [n], [m] => n == m
  | [n, c], [m] => n == m && num_classes == some (Int.ofNat c)
  | _, _ => false

/-- input (n, C), target (n,), C = num_classes (when given) -/
def Accepts_scores (input target : Shp) (num_classes : Option Int) : Bool :=
  match input, target with
  | [n, c], [m] => n == m && (num_classes == none || num_classes == some (Int.ofNat c))
  | _, _ => false

/-- equal 2-D shapes whose second extent is num_labels -/
def Accepts_multilabel (input target : Shp) (num_labels : Int) : Bool :=
  match input, target with
  | [n, l], [m, l'] => n == m && l == l' && Int.ofNat l == num_labels
  | _, _ => false

/-- equal shapes, nothing else -/
def Accepts_same (input target : Shp) : Bool := input == target

/-- equal 2-D shapes -/
def Accepts_eq2d (input target : Shp) : Bool := input == target && ndim input == 2

/-- `binary_auprc`: equal shapes; num_tasks = 1: rank ≤ 2 and at most one row; otherwise any rank ≥ 1
    whose first extent is num_tasks -/
def Accepts_binary_auprc (input target : Shp) (num_tasks : Int) : Bool :=
  input == target &&
  (if num_tasks == 1 then
    match input with
    | [] | [_] => true
    | [r, _] => decide (r ≤ 1)
    | _ => false
  else
    match input with
    | r :: _ => Int.ofNat r == num_tasks
    | [] => false)

/-- equal shapes; num_tasks = 1: rank ≤ 1; otherwise rank ≥ 2 with num_tasks rows -/
def Accepts_tasks_nd (input target : Shp) (num_tasks : Int) : Bool :=
  input == target &&
  (if num_tasks == 1 then decide (ndim input ≤ 1)
   else match input with
    | r :: _ :: _ => Int.ofNat r == num_tasks
    | _ => false)

/-- equal shapes; num_tasks = 1: rank ≤ 1; otherwise exactly (num_tasks, n) -/
def Accepts_tasks_2d (input target : Shp) (num_tasks : Int) : Bool :=
  input == target &&
  (if num_tasks == 1 then decide (ndim input ≤ 1)
   else match input with
    | [r, _] => Int.ofNat r == num_tasks
    | _ => false)

/-- equal shapes; num_tasks = 1: exactly 1-D; otherwise exactly (num_tasks, n) -/
def Accepts_tasks_strict (input target : Shp) (num_tasks : Int) : Bool :=
  input == target &&
  (if num_tasks == 1 then ndim input == 1
   else match input with
    | [r, _] => Int.ofNat r == num_tasks
    | _ => false)

/-- `binary_binned_auprc`: num_tasks = 1: (n,) or (1, n); otherwise (num_tasks, n) -/
def Accepts_binary_binned_auprc (input target : Shp) (num_tasks : Int) : Bool :=
  input == target &&
  (if num_tasks == 1 then
    match input with
    | [_] => true
    | [r, _] => r == 1
    | _ => false
  else
    match input with
    | [r, _] => Int.ofNat r == num_tasks
    | _ => false)

def Accepts_binary_auroc (input target : Shp) (num_tasks : Int) (weight : Option Shp) : Bool :=
  Accepts_tasks_2d input target num_tasks && weightOk input weight

def Accepts_ne (input target : Shp) (num_tasks : Int) (weight : Option Shp) : Bool :=
  Accepts_tasks_strict input target num_tasks && weightOk input weight

/-- the helper ignores `weight` -/
def Accepts_weighted_calibration (input target : Shp) (num_tasks : Int) : Bool :=
  Accepts_tasks_strict input target num_tasks

/-- `indexes`, when given, has the input's shape -/
def Accepts_retrieval (input target : Shp) (num_tasks : Int) (indexes : Option Shp) : Bool :=
  Accepts_tasks_strict input target num_tasks && weightOk input indexes

def Accepts_click_through_rate (input : Shp) (weights : Option Shp) (num_tasks : Int) : Bool :=
  weightOk input weights &&
  (match input with
   | [_] => num_tasks == 1
   | [r, _] => num_tasks != 1 && Int.ofNat r == num_tasks
   | _ => false)

/-- input (n, C), target (n,) -/
def Accepts_rank (input target : Shp) : Bool :=
  match input, target with
  | [n, _], [m] => n == m
  | _, _ => false

/-- equal shapes of rank ≤ 2; a sample_weight must be 1-D of the targets' first extent -/
def Accepts_mean_squared_error (input target : Shp) (sample_weight : Option Shp) : Bool :=
  input == target && decide (ndim input ≤ 2) &&
  (match sample_weight with
   | none => true
   | some [w] => some w == target.head?
   | some _ => false)

def Accepts_r2_score (input target : Shp) : Bool := input == target && decide (ndim input ≤ 2)

def Accepts_perplexity (input target : Shp) : Bool :=
  match input, target with
  | [n, s, _], [m, s'] => n == m && s == s'
  | _, _ => false

def Accepts_rank1 (input : Shp) : Bool := ndim input == 1

/-- after `unsqueeze(0)` of 1-D arguments: equal non-empty shapes of rank ≤ 2 with n_tasks rows -/
def Accepts_auc (x y : Shp) (n_tasks : Int) : Bool :=
  let x' := if ndim x == 1 then 1 :: x else x
  let y' := if ndim y == 1 then 1 :: y else y
  x' == y' && decide (ndim x' ≤ 2) && numel x != 0 && numel y != 0 &&
  (match x' with
   | r :: _ => Int.ofNat r == n_tasks
   | [] => false)

/-- non-empty values of rank ≤ 1; weights (when given) non-empty and of the values' shape -/
def Accepts_wasserstein (x y : Shp) (x_weights y_weights : Option Shp) : Bool :=
  numel x != 0 && numel y != 0 && decide (ndim x ≤ 1) && decide (ndim y ≤ 1) &&
  weightOk x x_weights && weightOk y y_weights

def Accepts_text (input target : Option Nat) : Bool := input == target

/-- the uniform closing step of every C18 theorem, after the check / `Accepts` / `Valid` in question has been
    unfolded and every tensor argument split by rank: unfold the shared families and the vocabulary, then `grind`. -/
macro "shape_auto" : tactic =>
  `(tactic| (simp [Valid_tasks1, Valid_1d, Valid_multiclass, Valid_scores, Valid_multilabel, Valid_tasks, Valid_regression,
      Valid_text, Valid_retrieval_precision, patterns_tasks0, liftW, Accepts_tasks_strict, Accepts_multiclass, Accepts_tasks_nd,
      Accepts_tasks_2d, unsqueeze0, norm1, ndim, size, Res.ite_ok, weightOk, numel_eq_zero] <;> grind))

end TE.ShapeSpec
