/-
  TE.Lemmas.PlumbDemo — concrete carriers satisfying the laws of `TE.Plumb.Ops` (non-vacuity of the plumbing
  theorems; used by the `example`s of TE/Props/C01_Plumb.lean).
-/
import TE.Model.Plumb
namespace TE.Plumb.Demo
open TE TE.Plumb

/-- naturals with a top element (`none` = +inf) — `+` and `max` have unit 0 and absorb +inf, `min` has unit
    +inf. -/
def natOp : NOp → Option Nat → Option Nat → Option Nat
  | .add, some a, some b => some (a + b)
  | .add, _, _ => none
  | .max, some a, some b => some (Nat.max a b)
  | .max, _, _ => none
  | .min, some a, some b => some (Nat.min a b)
  | .min, some a, none => some a
  | .min, none, b => b

def natUnit : NOp → Option Nat
  | .add => some 0 | .max => some 0 | .min => none

/-- `a - b` on the carrier (`x - +inf = +inf` stands for the `-inf - inf` of the real code: not the default). -/
def natSub : Option Nat → Option Nat → Option Nat
  | some a, some b => some (a - b)
  | _, _ => none

theorem natOp_assoc (o : NOp) (a b c : Option Nat) : natOp o (natOp o a b) c = natOp o a (natOp o b c) := by
  cases o <;> cases a <;> cases b <;> cases c <;> simp [natOp, Nat.add_assoc, Nat.max_assoc, Nat.min_assoc]

theorem natOp_comm (o : NOp) (a b : Option Nat) : natOp o a b = natOp o b a := by
  cases o <;> cases a <;> cases b <;> simp [natOp, Nat.add_comm, Nat.max_comm, Nat.min_comm]

theorem natOp_unit_left (o : NOp) (a : Option Nat) : natOp o (natUnit o) a = a := by
  cases o <;> cases a <;> simp [natOp, natUnit]

def natScalar (a : Option Nat) : Bool := a == some 0

theorem natScalar_add (a b : Option Nat) : natScalar (natOp .add a b) = (natScalar a && natScalar b) := by
  cases a with
  | none => cases b <;> rfl
  | some x =>
    cases b with
    | none => simp [natOp, natScalar]
    | some y => cases x <;> cases y <;> rfl

/-- chunks are lists, `cat` flattens (along whatever dimension); one row; the only "0-dim" value is the zero
    default. -/
def natOps : Ops (Option Nat) (List Nat) where
  op := natOp
  unit := natUnit
  cat := fun _ l => l.flatten
  assoc := natOp_assoc
  comm := natOp_comm
  unit_left := natOp_unit_left
  cat_flat := by
    intro d xs ys zs _
    simp
  scalar := natScalar
  vec := fun a => !natScalar a
  scalar_unit := rfl
  scalar_add := natScalar_add
  vec_scalar := fun a h => by cases hx : natScalar a <;> simp_all
  sub := natSub
  ntasks := 1
  rowAcc := fun i o a c => if i = 0 then natOp o a c else a
  row_fold := by
    intro o a c
    simp [List.range_succ]

/-- a carrier with TWO rows (pairs), on which `for i in range(2): state[i] op= contribution[i]` is `op`;
    "0-dim" = both rows are the zero default. -/
def pairOps : Ops (Option Nat × Option Nat) (List Nat) where
  op := fun o a b => (natOp o a.1 b.1, natOp o a.2 b.2)
  unit := fun o => (natUnit o, natUnit o)
  cat := fun _ l => l.flatten
  assoc := by intro o a b c; simp [natOp_assoc]
  comm := by intro o a b; rw [natOp_comm o a.1, natOp_comm o a.2]
  unit_left := by intro o a; simp [natOp_unit_left]
  cat_flat := by intro d xs ys zs _; simp
  scalar := fun a => natScalar a.1 && natScalar a.2
  vec := fun a => !(natScalar a.1 && natScalar a.2)
  scalar_unit := rfl
  scalar_add := by
    intro a b
    simp only [natScalar_add]
    cases natScalar a.1 <;> cases natScalar a.2 <;> cases natScalar b.1 <;> cases natScalar b.2 <;> rfl
  vec_scalar := fun a h => by cases hx : (natScalar a.1 && natScalar a.2) <;> simp_all
  sub := fun a b => (natSub a.1 b.1, natSub a.2 b.2)
  ntasks := 2
  rowAcc := fun i o a c => if i = 0 then (natOp o a.1 c.1, a.2) else if i = 1 then (a.1, natOp o a.2 c.2) else a
  row_fold := by
    intro o a c
    simp [List.range_succ]

end TE.Plumb.Demo
