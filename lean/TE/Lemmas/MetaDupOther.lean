/-
  TE.Lemmas.MetaDupOther — C17 (c), non-count metrics: duplicating the whole data set
  (`metric (xs ++ xs) = metric xs`) leaves every *ratio* metric unchanged:
  AUROC, precision-recall curve (precision, recall and thresholds), AUPRC, recall at fixed
  precision, (weighted) mean, MSE, R² (unadjusted), click-through rate, weighted calibration,
  normalized entropy, perplexity, mean hit rate / reciprocal rank.
  Every sufficient statistic doubles (`2·`), the ratio cancels the factor — including the torch
  `x/0` conventions (`MetaL.xdiv_scale`) — and the thresholds of a curve are the *distinct* scores.
  Where duplication is NOT invariant a decided witness is given:
    * `r2_adjusted_dup_witness`        adjusted R² (`num_regressors > 0`) depends on `n`;
    * `r2_single_sample_dup_witness`   `n = 1` is rejected, `n = 2` is not;
    * `mse_tiny_weight_dup_witness`    total weight below `eps` is clamped, the clamp does not scale;
    * `binaryAuroc_fractional_label_dup_witness`  `binary_auroc` with a non-0/1 "label".
  The count-based family and the generic accumulator lemma live in the sibling C17 files.
-/
import TE.Lemmas.MetaBasic
import TE.Props.C05
import TE.Props.C07
import TE.Props.C08
namespace TE.MetaL
open TE

/-! ## shared list facts -/

theorem sum_map_append_self {α : Type} (l : List α) (f : α → Q) :
    ((l ++ l).map f).sum = 2 * (l.map f).sum := by
  rw [List.map_append, sum_append_self]

theorem sum_zipWith_dup (f : Q → Q → Q) (a b : List Q) (h : a.length = b.length) :
    (List.zipWith f (a ++ a) (b ++ b)).sum = 2 * (List.zipWith f a b).sum := by
  rw [List.zipWith_append h, sum_append_self]

theorem sum_zip_map_dup (f : Q × Q → Q) (a b : List Q) (h : a.length = b.length) :
    (((a ++ a).zip (b ++ b)).map f).sum = 2 * ((a.zip b).map f).sum := by
  rw [List.zip_append h, List.map_append, sum_append_self]

/-- column-wise statistics of a duplicated `(n, d)` input (columns `c ↦ c ++ c`). -/
theorem zipWith_dup_cols (g' g : List Q → List Q → Q) (xc tc : Mat)
    (hg : ∀ p ∈ xc.zip tc, g' (p.1 ++ p.1) (p.2 ++ p.2) = 2 * g p.1 p.2) :
    List.zipWith g' (xc.map fun c => c ++ c) (tc.map fun c => c ++ c) = (List.zipWith g xc tc).map (2 * ·) := by
  induction xc generalizing tc with
  | nil => simp
  | cons x xc ih =>
    cases tc with
    | nil => simp
    | cons t tc =>
      simp only [List.map_cons, List.zipWith_cons_cons, List.cons.injEq]
      refine ⟨hg (x, t) (by simp), ih tc ?_⟩
      intro p hp; exact hg p (by simp [hp])

/-- `mapM` in `Except` over a duplicated list: fails iff the single pass fails, else the result twice. -/
theorem mapM_append_self {α β : Type} (f : α → Except Err β) (l : List α) :
    (l ++ l).mapM f = (l.mapM f).map fun r => r ++ r := by
  rw [List.mapM_append]
  cases l.mapM f <;> simp [bind, Except.bind, Except.map, pure, Except.pure]

/-! ## 1. AUROC -/
section Auroc
open TE.Spec.Curve TE.Curve TE.CurveL

theorem wPos_dup (l : List Sample) : wPos (l ++ l) = 2 * wPos l := by
  unfold wPos; rw [List.filter_append, sum_map_append_self]

theorem wNeg_dup (l : List Sample) : wNeg (l ++ l) = 2 * wNeg l := by
  unfold wNeg; rw [List.filter_append, sum_map_append_self]

theorem aurocNum_dup (l : List Sample) : aurocNum (l ++ l) = 4 * aurocNum l := by
  unfold aurocNum
  simp only [List.filter_append]
  rw [sum_map_append_self]
  have : ∀ i : Sample, ((l.filter isNeg ++ l.filter isNeg).map fun j => i.w * j.w * kernel i.s j.s).sum
      = 2 * ((l.filter isNeg).map fun j => i.w * j.w * kernel i.s j.s).sum := fun i => sum_map_append_self _ _
  simp only [this]
  rw [sum_map_scale' 2 (l.filter isPos)]
  grind

/-- **AUROC (definition) is invariant under duplication**: `W⁺`, `W⁻` double, the pair sum quadruples;
    the degenerate branch (`W⁺·W⁻ = 0 ↦ 1/2`) is taken by both or by neither.  Any weights, any labels. -/
theorem aurocSpec_dup (l : List Sample) : auroc (l ++ l) = auroc l := by
  unfold auroc
  rw [wPos_dup, wNeg_dup, aurocNum_dup]
  have e : 2 * wPos l * (2 * wNeg l) = 4 * (wPos l * wNeg l) := by grind
  rw [e]
  by_cases h : wPos l * wNeg l = 0
  · simp [h, Rat.mul_zero]
  · have h4 : (4 : Q) * (wPos l * wNeg l) ≠ 0 := fun h' => h ((mul_eq_zero_iff 4 _ (by decide)).mp h')
    simp only [h, h4, if_false]
    exact div_scale 4 _ _ (by decide)

example : auroc ([⟨1/2, 1, 1⟩, ⟨1/2, 0, 2⟩, ⟨1/4, 1, 1⟩] ++ [⟨1/2, 1, 1⟩, ⟨1/2, 0, 2⟩, ⟨1/4, 1, 1⟩]) = 1/4 := by
  decide +kernel

theorem samples_dup (xs ts ws : List Q) (h1 : xs.length = ts.length) (h2 : ts.length = ws.length) :
    samples (xs ++ xs) (ts ++ ts) (ws ++ ws) = samples xs ts ws ++ samples xs ts ws := by
  unfold samples
  rw [List.zip_append h2, List.zip_append (by simp [List.length_zip, h1, h2]), List.map_append]

/-- **`binary_auroc` on the duplicated data** (scores, 0/1 labels, arbitrary rational weights). -/
theorem binaryAuroc_dup (xs ts ws : List Q) (h1 : xs.length = ts.length) (h2 : ts.length = ws.length)
    (hne : samples xs ts ws ≠ []) (hlab : ∀ x ∈ samples xs ts ws, x.t = 0 ∨ x.t = 1) :
    binaryAuroc (xs ++ xs) (ts ++ ts) (ws ++ ws) = binaryAuroc xs ts ws := by
  have e := samples_dup xs ts ws h1 h2
  rw [C05.auroc_model_eq_spec xs ts ws hne hlab,
    C05.auroc_model_eq_spec (xs ++ xs) (ts ++ ts) (ws ++ ws) (by rw [e]; simpa using hne)
      (by rw [e]; intro x hx; exact hlab x (by simpa using hx)), e, aurocSpec_dup]

example : samples [1/2, 1/2, 1/4, 3/4] [1, 0, 1, 0] [1, 2, 1, 2] ≠ []
    ∧ ∀ x ∈ samples [1/2, 1/2, 1/4, 3/4] [1, 0, 1, 0] [1, 2, 1, 2], x.t = 0 ∨ x.t = 1 := by decide +kernel

/-- the label hypothesis cannot be dropped: with a fractional "label" `binary_auroc` is not even
    invariant under duplication (2/3 ↦ 5/6; cf. `TE.C05.auroc_fractional_label_witness`).
    FALSE as stated without `hlab`:
    `binaryAuroc (xs ++ xs) (ts ++ ts) (ws ++ ws) = binaryAuroc xs ts ws` for all equal-length `xs ts ws`. -/
theorem binaryAuroc_fractional_label_dup_witness :
    (binaryAuroc [1, 1/2] [1/2, 0] [1, 1]).toOption = some (2/3)
      ∧ (binaryAuroc ([1, 1/2] ++ [1, 1/2]) ([1/2, 0] ++ [1/2, 0]) ([1, 1] ++ [1, 1])).toOption = some (5/6) := by
  have b1 : binPts [1, 1/2] [1/2, 0] [1, 1] = [⟨1, 1/2, 1/2⟩, ⟨1/2, 0, 1⟩] := by decide +kernel
  have b2 : binPts ([1, 1/2] ++ [1, 1/2]) ([1/2, 0] ++ [1/2, 0]) ([1, 1] ++ [1, 1])
      = [⟨1, 1/2, 1/2⟩, ⟨1/2, 0, 1⟩, ⟨1, 1/2, 1/2⟩, ⟨1/2, 0, 1⟩] := by decide +kernel
  have h1 : (1/2 : Q) ≤ 1 := by decide +kernel
  have h2 : ¬ (1 : Q) ≤ 1/2 := by decide +kernel
  have s1 : sortDesc [⟨1, 1/2, 1/2⟩, ⟨1/2, 0, 1⟩] = [⟨1, 1/2, 1/2⟩, ⟨1/2, 0, 1⟩] := by
    unfold sortDesc
    simp [List.mergeSort, List.MergeSort.Internal.splitInTwo, h1]
  have s2 : sortDesc [⟨1, 1/2, 1/2⟩, ⟨1/2, 0, 1⟩, ⟨1, 1/2, 1/2⟩, ⟨1/2, 0, 1⟩]
      = [⟨1, 1/2, 1/2⟩, ⟨1, 1/2, 1/2⟩, ⟨1/2, 0, 1⟩, ⟨1/2, 0, 1⟩] := by
    unfold sortDesc
    simp [List.mergeSort, List.MergeSort.Internal.splitInTwo, h1, h2]
  unfold binaryAuroc aurocCore
  rw [b1, b2, s1, s2]
  decide +kernel

theorem zip_ne_nil_of_len {col labs : List Q} (h : col.length = labs.length) (hne : labs ≠ []) :
    col.zip labs ≠ [] := by
  cases labs with
  | nil => exact absurd rfl hne
  | cons b labs => cases col with
    | nil => simp at h
    | cons a col => simp

theorem ovrSamples_dup (c : Nat) (col labs : List Q) (h : col.length = labs.length) :
    ovrSamples c (col ++ col) (labs ++ labs) = ovrSamples c col labs ++ ovrSamples c col labs := by
  unfold ovrSamples; rw [List.zip_append h, List.map_append]

theorem ovrLS_dup (c : Nat) (col labs : List Q) (h : col.length = labs.length) :
    ovrLS c (col ++ col) (labs ++ labs) = ovrLS c col labs ++ ovrLS c col labs := by
  unfold ovrLS; rw [List.zip_append h, List.map_append]

/-- **multiclass AUROC** (`input.T` columns and the label vector duplicated), `average ∈ {macro, none}`. -/
theorem multiclassAuroc_dup (cols : List (List Q)) (labs : List Q) (avg : Avg)
    (hlen : ∀ col ∈ cols, col.length = labs.length) (hne : labs ≠ []) :
    multiclassAuroc (cols.map fun c => c ++ c) (labs ++ labs) avg = multiclassAuroc cols labs avg := by
  unfold multiclassAuroc
  rw [List.zipIdx_map, List.mapM_map,
    mapM_ok (g := fun cc => auroc (ovrSamples cc.2 cc.1 labs)),
    mapM_ok (g := fun cc => auroc (ovrSamples cc.2 cc.1 labs))]
  · intro cc hcc
    exact C05.multiclass_auroc_class_eq _ _ _ (zip_ne_nil_of_len (hlen _ (mem_zipIdx_fst hcc)) hne)
  · intro cc hcc
    have hl := hlen _ (mem_zipIdx_fst hcc)
    show aurocCore (ovrPts cc.2 (cc.1 ++ cc.1) (labs ++ labs)) = _
    rw [C05.multiclass_auroc_class_eq _ _ _ (zip_ne_nil_of_len (by simp [hl]) (by simpa using hne)),
      ovrSamples_dup _ _ _ hl, aurocSpec_dup]

example : (∀ col ∈ [[1/2, 1/2, 1], [1/2, 1/4, 0]], col.length = [(0:Q), 1, 0].length) ∧ [(0:Q), 1, 0] ≠ [] := by
  decide +kernel
end Auroc

/-! ## 2. precision-recall curve -/
section PR
open TE.Spec.Curve TE.Curve TE.CurveL

theorem tpAt_dup (l : List LS) (t : Q) : tpAt (l ++ l) t = 2 * tpAt l t := by
  unfold tpAt; rw [List.countP_append]; omega
theorem fpAt_dup (l : List LS) (t : Q) : fpAt (l ++ l) t = 2 * fpAt l t := by
  unfold fpAt; rw [List.countP_append]; omega
theorem nPos_dup (l : List LS) : nPos (l ++ l) = 2 * nPos l := by
  unfold nPos; rw [List.countP_append]; omega

theorem precisionAt_dup (l : List LS) (t : Q) : precisionAt (l ++ l) t = precisionAt l t := by
  unfold precisionAt
  rw [tpAt_dup, fpAt_dup, natCast_two_mul, natCast_two_mul]
  have : (2 : Q) * (tpAt l t : Q) + 2 * (fpAt l t : Q) = 2 * ((tpAt l t : Q) + (fpAt l t : Q)) := by grind
  rw [this]; exact div_scale 2 _ _ two_ne_zero

theorem recallAt_dup (l : List LS) (t : Q) : recallAt (l ++ l) t = recallAt l t := by
  unfold recallAt
  rw [tpAt_dup, nPos_dup, natCast_two_mul, natCast_two_mul]
  by_cases h : nPos l = 0
  · simp [h]
  · have : 2 * nPos l ≠ 0 := by omega
    simp only [h, this, if_false]; exact div_scale 2 _ _ two_ne_zero

theorem distinctAsc_dup (l : List Q) : distinctAsc (l ++ l) = distinctAsc l := by
  apply strictAsc_ext _ _ (distinctAsc_sorted _) (distinctAsc_sorted _)
  intro t
  rw [mem_distinctAsc, mem_distinctAsc]; simp

/-- **the whole precision-recall curve (definition) is invariant under duplication**: the thresholds are the
    *distinct* scores (unchanged), `TP(≥t)`, `FP(≥t)`, `P` double, the ratios cancel; the no-positive
    convention (recall 1) is taken by both or by neither. -/
theorem prCurveSpec_dup (l : List LS) : prCurve (l ++ l) = prCurve l := by
  have hp : precisionAt (l ++ l) = precisionAt l := funext (precisionAt_dup l)
  have hr : recallAt (l ++ l) = recallAt l := funext (recallAt_dup l)
  unfold prCurve
  simp only [List.map_append, distinctAsc_dup, hp, hr]

example : prCurve ([(1/2, true), (1/4, false), (1/2, false)] ++ [(1/2, true), (1/4, false), (1/2, false)])
    = ⟨[1/3, 1/2, 1], [1, 1, 0], [1/4, 1/2]⟩ := by decide +kernel

theorem auprcSpec_dup (l : List LS) : auprc (l ++ l) = auprc l := by
  unfold auprc; rw [prCurveSpec_dup]

example : auprc ([(1/2, true), (1/4, false), (1/2, false)] ++ [(1/2, true), (1/4, false), (1/2, false)]) = 1/2 := by
  decide +kernel

theorem posLS_dup (xs ts : List Q) (hlen : xs.length = ts.length) :
    posLS (xs ++ xs) (ts ++ ts) = posLS xs ts ++ posLS xs ts := by
  unfold posLS; rw [List.zip_append hlen, List.map_append]

/-- **`binary_precision_recall_curve` on the duplicated data**: precision, recall *and* thresholds. -/
theorem binaryPrCurve_dup (xs ts : List Q) (hlen : xs.length = ts.length) (hne : posLS xs ts ≠ []) :
    binaryPrCurve (xs ++ xs) (ts ++ ts) = binaryPrCurve xs ts := by
  have e := posLS_dup xs ts hlen
  rw [C05.prCurve_model_eq_spec xs ts hne,
    C05.prCurve_model_eq_spec (xs ++ xs) (ts ++ ts) (by rw [e]; simpa using hne), e, prCurveSpec_dup]

example : ([1/2, 1/2, 1/4, 3/4] : List Q).length = ([1, 0, 1, 0] : List Q).length
    ∧ posLS [1/2, 1/2, 1/4, 3/4] [1, 0, 1, 0] ≠ [] := by decide +kernel

theorem binaryAuprc_dup (xs ts : List Q) (hlen : xs.length = ts.length) (hne : posLS xs ts ≠ []) :
    binaryAuprc (xs ++ xs) (ts ++ ts) = binaryAuprc xs ts := by
  unfold binaryAuprc; rw [binaryPrCurve_dup xs ts hlen hne]

theorem binaryRecallAtPrecision_dup (xs ts : List Q) (hlen : xs.length = ts.length)
    (hne : posLS xs ts ≠ []) (minP : Q) :
    binaryRecallAtPrecision (xs ++ xs) (ts ++ ts) minP = binaryRecallAtPrecision xs ts minP := by
  unfold binaryRecallAtPrecision; rw [binaryPrCurve_dup xs ts hlen hne]

theorem multiclassPrCurve_dup (cols : List (List Q)) (labs : List Q)
    (hlen : ∀ col ∈ cols, col.length = labs.length) (hne : labs ≠ []) :
    multiclassPrCurve (cols.map fun c => c ++ c) (labs ++ labs) = multiclassPrCurve cols labs := by
  have h1 : ∀ col ∈ cols, col.zip labs ≠ [] := fun col hc => zip_ne_nil_of_len (hlen col hc) hne
  have h2 : ∀ col ∈ cols.map (fun c => c ++ c), col.zip (labs ++ labs) ≠ [] := by
    intro col hc
    obtain ⟨c, hc', rfl⟩ := List.mem_map.mp hc
    exact zip_ne_nil_of_len (by simp [hlen c hc']) (by simpa using hne)
  rw [C05.multiclass_prcurve_eq _ _ h1, C05.multiclass_prcurve_eq _ _ h2, List.zipIdx_map, List.map_map]
  congr 1
  apply List.map_congr_left
  intro cc hcc
  have hl := hlen _ (mem_zipIdx_fst hcc)
  simp only [Function.comp, Prod.map, id]
  rw [ovrLS_dup _ _ _ hl, prCurveSpec_dup]

theorem multiclassAuprc_dup (cols : List (List Q)) (labs : List Q) (avg : Avg)
    (hlen : ∀ col ∈ cols, col.length = labs.length) (hne : labs ≠ []) :
    multiclassAuprc (cols.map fun c => c ++ c) (labs ++ labs) avg = multiclassAuprc cols labs avg := by
  unfold multiclassAuprc; rw [multiclassPrCurve_dup cols labs hlen hne]

theorem multilabelPrCurve_dup (cols : List (List Q × List Q))
    (hlen : ∀ c ∈ cols, c.1.length = c.2.length) (hne : ∀ c ∈ cols, posLS c.1 c.2 ≠ []) :
    multilabelPrCurve (cols.map fun c => (c.1 ++ c.1, c.2 ++ c.2)) = multilabelPrCurve cols := by
  unfold multilabelPrCurve
  rw [List.mapM_map]
  apply mapM_congr
  intro c hc
  exact binaryPrCurve_dup c.1 c.2 (hlen c hc) (hne c hc)

theorem multilabelAuprc_dup (cols : List (List Q × List Q)) (avg : Avg)
    (hlen : ∀ c ∈ cols, c.1.length = c.2.length) (hne : ∀ c ∈ cols, posLS c.1 c.2 ≠ []) :
    multilabelAuprc (cols.map fun c => (c.1 ++ c.1, c.2 ++ c.2)) avg = multilabelAuprc cols avg := by
  unfold multilabelAuprc; rw [multilabelPrCurve_dup cols hlen hne]

theorem multilabelRecallAtPrecision_dup (cols : List (List Q × List Q)) (minP : Q)
    (hlen : ∀ c ∈ cols, c.1.length = c.2.length) (hne : ∀ c ∈ cols, posLS c.1 c.2 ≠ []) :
    multilabelRecallAtPrecision (cols.map fun c => (c.1 ++ c.1, c.2 ++ c.2)) minP
      = multilabelRecallAtPrecision cols minP := by
  unfold multilabelRecallAtPrecision; rw [multilabelPrCurve_dup cols hlen hne]

example : (∀ c ∈ [(([1/2, 1/2] : List Q), ([1, 0] : List Q)), ([1/2, 1/4], [0, 0])], c.1.length = c.2.length)
    ∧ (∀ c ∈ [(([1/2, 1/2] : List Q), ([1, 0] : List Q)), ([1/2, 1/4], [0, 0])], posLS c.1 c.2 ≠ []) := by
  decide +kernel
end PR

/-! ## 3. mean -/
section Mean
open TE.Agg

/-- **functional `mean`, tensor weights, unconditional**: size mismatch is rejected by both, zero total
    weight gives the same `nan` / `±inf` (`xdiv_scale`), otherwise the same quotient. -/
theorem meanFn_dup (xs ws : List Q) : meanFn (xs ++ xs) (.tensor (ws ++ ws)) = meanFn xs (.tensor ws) := by
  unfold meanFn meanUpdate
  by_cases h : ws.length = xs.length
  · have h' : (ws ++ ws).length = (xs ++ xs).length := by simp [h]
    simp only [h, h', if_true, bind, Except.bind, pure, Except.pure]
    rw [sum_zipWith_dup _ _ _ h, sum_append_self, xdiv_scale _ _ _ two_pos]
  · have h' : ¬ (ws ++ ws).length = (xs ++ xs).length := by simp only [List.length_append]; omega
    simp only [h, h', if_false, bind, Except.bind]

example : (meanFn ([1, 2, 3] ++ [1, 2, 3]) (.tensor ([1, 2, 3] ++ [1, 2, 3]))).toOption = some (.val (7 / 3)) := by
  decide +kernel
example : (meanFn ([1, 2] ++ [1, 2]) (.tensor ([1, -1] ++ [1, -1]))).toOption = some .ninf := by decide +kernel

theorem meanFn_scalar_dup (xs : List Q) (w : Q) : meanFn (xs ++ xs) (.scalar w) = meanFn xs (.scalar w) := by
  unfold meanFn meanUpdate
  simp only [bind, Except.bind, pure, Except.pure]
  rw [sum_append_self, List.length_append, natCast_add_self]
  have e1 : w * (2 * xs.sum) = 2 * (w * xs.sum) := by grind
  have e2 : w * (2 * (xs.length : Q)) = 2 * (w * (xs.length : Q)) := by grind
  rw [e1, e2, xdiv_scale _ _ _ two_pos]

example : (meanFn ([1, 2, 3] ++ [1, 2, 3]) (.scalar 2)).toOption = some (.val 2) := by decide +kernel

/-- the definition `Σwx/Σw` (the guard `Σw ≠ 0` is carried by convention: it is where the ratio means something). -/
theorem wmeanSpec_dup (ws xs : List Q) (hlen : ws.length = xs.length) (_hw : ws.sum ≠ 0) :
    Spec.Agg.wmean (ws ++ ws) (xs ++ xs) = Spec.Agg.wmean ws xs := by
  unfold Spec.Agg.wmean Spec.Agg.wsum
  rw [sum_zipWith_dup _ _ _ hlen, sum_append_self, div_scale _ _ _ two_ne_zero]

example : ([1, 2, 3] : List Q).length = ([1, 2, 3] : List Q).length ∧ ([1, 2, 3] : List Q).sum ≠ 0 := by decide +kernel
end Mean

/-! ## 4. MSE -/
section Mse
open TE.Agg TE.AggL

/-- the definition `Σ(t−x)²/n`, `n ≥ 1`. -/
theorem mseSpec_dup (xs ts : List Q) (hlen : xs.length = ts.length) (_hn : ts ≠ []) :
    Spec.Agg.mse (xs ++ xs) (ts ++ ts) = Spec.Agg.mse xs ts := by
  unfold Spec.Agg.mse
  rw [sum_zipWith_dup _ _ _ hlen, List.length_append, natCast_add_self, div_scale _ _ _ two_ne_zero]

theorem eps64_le_two_mul (sw : Q) (h : eps64 ≤ sw) : eps64 ≤ 2 * sw := by
  unfold eps64 at *; grind

theorem mseRaw_double (sse : List Q) (sw : Q) (h : eps64 ≤ sw) :
    mseRaw (sse.map (2 * ·)) (2 * sw) = mseRaw sse sw := by
  rw [mseRaw_eq _ _ h, mseRaw_eq _ _ (eps64_le_two_mul sw h)]
  simp only [List.map_map]
  apply List.map_congr_left
  intro s _
  simp only [Function.comp]
  rw [div_scale _ _ _ two_ne_zero]

theorem mseCompute_double (u : Bool) (sse : List Q) (sw : Q) (h : eps64 ≤ sw) :
    mseCompute u (sse.map (2 * ·)) (2 * sw) = mseCompute u sse sw := by
  unfold mseCompute; rw [mseRaw_double _ _ h]

/-- **`mean_squared_error`, unweighted**: the columns of the `(n, d)` input are duplicated, `n ↦ 2n` rows. -/
theorem mse_model_dup (u : Bool) (xc tc : Mat) (n : Nat) (hn : n ≠ 0)
    (hx : ∀ p ∈ xc.zip tc, p.1.length = p.2.length) :
    mseCompute u (mseUpdate none (xc.map fun c => c ++ c) (tc.map fun c => c ++ c) (2 * n)).1
        (mseUpdate none (xc.map fun c => c ++ c) (tc.map fun c => c ++ c) (2 * n)).2
      = mseCompute u (mseUpdate none xc tc n).1 (mseUpdate none xc tc n).2 := by
  unfold mseUpdate
  simp only
  rw [zipWith_dup_cols (sseCol none) (sseCol none) xc tc (fun p hp => sum_zipWith_dup _ _ _ (hx p hp)), natCast_two_mul]
  exact mseCompute_double u _ _ (eps64_le_natCast hn)

example : (∀ p ∈ ([[1, 1, 1], [0, 1, 2]] : Mat).zip [[0, 0, 0], [0, 3, 2]], p.1.length = p.2.length) := by
  decide +kernel

/-- **`mean_squared_error` with `sample_weight`** of total weight at least `eps` (below it the code clamps
    the denominator: `mse_tiny_weight_dup_witness`). -/
theorem mse_model_weighted_dup (u : Bool) (ws : List Q) (xc tc : Mat) (n : Nat) (hw : eps64 ≤ ws.sum)
    (hlens : ∀ p ∈ xc.zip tc, p.1.length = p.2.length ∧ p.2.length = ws.length) :
    mseCompute u (mseUpdate (some (ws ++ ws)) (xc.map fun c => c ++ c) (tc.map fun c => c ++ c) (2 * n)).1
        (mseUpdate (some (ws ++ ws)) (xc.map fun c => c ++ c) (tc.map fun c => c ++ c) (2 * n)).2
      = mseCompute u (mseUpdate (some ws) xc tc n).1 (mseUpdate (some ws) xc tc n).2 := by
  unfold mseUpdate
  simp only
  rw [sum_append_self, zipWith_dup_cols (sseCol (some (ws ++ ws))) (sseCol (some ws)) xc tc (by
    intro p hp
    obtain ⟨h1, h2⟩ := hlens p hp
    simp only [sseCol]
    rw [List.zipWith_append h1, sum_zipWith_dup _ _ _ (by simp [h1, h2])])]
  exact mseCompute_double u _ _ hw

example : eps64 ≤ ([1, 2, 3] : List Q).sum ∧ (∀ p ∈ ([[1, 1, 1], [0, 1, 2]] : Mat).zip [[0, 0, 0], [0, 3, 2]],
    p.1.length = p.2.length ∧ p.2.length = ([1, 2, 3] : List Q).length) := by decide +kernel

/-- why `eps ≤ Σw` is needed: the code divides by `|Σw|.clamp(min=eps)·sign`; a total weight below `eps` is
    replaced by `eps`, which does not double — duplication changes the result (1/2 ↦ 1).
    FALSE as stated without `hw`: `mse_model_weighted_dup`. -/
theorem mse_tiny_weight_dup_witness :
    mseCompute false (mseUpdate (some [eps64 / 2]) [[1]] [[0]] 1).1 (mseUpdate (some [eps64 / 2]) [[1]] [[0]] 1).2
        = [.val (1/2)]
      ∧ mseCompute false (mseUpdate (some ([eps64 / 2] ++ [eps64 / 2])) [[1] ++ [1]] [[0] ++ [0]] 2).1
          (mseUpdate (some ([eps64 / 2] ++ [eps64 / 2])) [[1] ++ [1]] [[0] ++ [0]] 2).2 = [.val 1] := by
  decide +kernel

end Mse

/-! ## 5. R² -/
section R2
open TE.Agg TE.AggL

theorem meanSpec_dup (ys : List Q) : Spec.Agg.mean (ys ++ ys) = Spec.Agg.mean ys := by
  unfold Spec.Agg.mean
  rw [sum_append_self, List.length_append, natCast_add_self, div_scale _ _ _ two_ne_zero]

theorem tssSpec_dup (ys : List Q) : Spec.Agg.tss (ys ++ ys) = 2 * Spec.Agg.tss ys := by
  unfold Spec.Agg.tss
  rw [meanSpec_dup, sum_map_append_self]

theorem rssSpec_dup (pred ys : List Q) (hlen : pred.length = ys.length) :
    Spec.Agg.rss (pred ++ pred) (ys ++ ys) = 2 * Spec.Agg.rss pred ys := by
  unfold Spec.Agg.rss; exact sum_zipWith_dup _ _ _ hlen

/-- the definition `1 − RSS/TSS` (the mean of the observations is unchanged, RSS and TSS double). -/
theorem r2Spec_dup (pred ys : List Q) (hlen : pred.length = ys.length) (_hn : ys ≠ []) :
    Spec.Agg.r2 (pred ++ pred) (ys ++ ys) = Spec.Agg.r2 pred ys := by
  unfold Spec.Agg.r2
  rw [rssSpec_dup _ _ hlen, tssSpec_dup, div_scale _ _ _ two_ne_zero]

example : Spec.Agg.r2 ([1, 2, 4] ++ [1, 2, 4]) ([1, 3, 3] ++ [1, 3, 3]) = 1/4 := by decide +kernel

theorem r2Tss_double (sso so : List Q) (n : Q) :
    r2Tss (sso.map (2 * ·)) (so.map (2 * ·)) (2 * n) = (r2Tss sso so n).map (2 * ·) := by
  unfold r2Tss
  rw [List.zipWith_map, List.map_zipWith]
  congr 1
  funext a b
  have : 2 * b * (2 * b) = 2 * (2 * (b * b)) := by grind
  rw [this, div_scale _ _ _ two_ne_zero]
  simp only [Rat.div_def]; grind

theorem r2Raw_double (rss tss : List Q) :
    r2Raw (rss.map (2 * ·)) (tss.map (2 * ·)) = r2Raw rss tss := by
  unfold r2Raw
  rw [List.zipWith_map]
  simp only [xdiv_scale _ _ _ two_pos]

theorem xsgn_double (t : Q) : xsgn (.val (2 * t)) = xsgn (.val t) := by
  simp only [xsgn, mul_neg_iff 2 t two_pos, mul_eq_zero_iff 2 t two_ne_zero]

theorem vwTerm_double (r : XQ) (t T : Q) :
    xdivX (xmul r (.val (2 * t))) (.val (2 * T)) = xdivX (xmul r (.val t)) (.val T) := by
  cases r with
  | val a =>
    simp only [xmul, xdivX]
    have : a * (2 * t) = 2 * (a * t) := by grind
    rw [this, xdiv_scale _ _ _ two_pos]
  | nan => simp [xmul, xdivX]
  | pinf =>
    simp only [xmul, xsgn_double]
    split <;> (try split) <;> simp only [xdivX, mul_neg_iff 2 T two_pos]
  | ninf =>
    simp only [xmul, xsgn_double]
    split <;> (try split) <;> simp only [xdivX, mul_neg_iff 2 T two_pos]

/-- **`_r2_score_compute` without adjustment** (`num_regressors = 0`) on doubled statistics and `n ↦ 2n`, for
    `raw_values`, `uniform_average` and `variance_weighted`, including zero-TSS outputs (`nan` / `±inf`). -/
theorem r2Compute_dup (sso so rss : List Q) (n : Q) (mo : MultiOut) (hn : 2 ≤ n) :
    r2Compute (sso.map (2 * ·)) (so.map (2 * ·)) (rss.map (2 * ·)) (2 * n) mo 0 = r2Compute sso so rss n mo 0 := by
  unfold r2Compute
  have h1 : ¬ n < 2 := by grind
  have h2 : ¬ 2 * n < 2 := by grind
  have h3 : ¬ n - 1 ≤ ((0 : Nat) : Q) := by simp; grind
  have h4 : ¬ 2 * n - 1 ≤ ((0 : Nat) : Q) := by simp; grind
  simp only [h1, h2, h3, h4, if_false, if_true, r2Tss_double, r2Raw_double]
  cases mo with
  | raw => rfl
  | uniform => rfl
  | variance =>
    simp only [sum_map_scale, List.zipWith_map_right, vwTerm_double]

/-- the sufficient statistics `(Σy², Σy, Σ(y−ŷ)²)` of the duplicated columns are the doubled ones. -/
theorem r2Update_dup (xc tc : Mat) (hx : ∀ p ∈ xc.zip tc, p.1.length = p.2.length) :
    r2Update (xc.map fun c => c ++ c) (tc.map fun c => c ++ c)
      = ((r2Update xc tc).1.map (2 * ·), (r2Update xc tc).2.1.map (2 * ·), (r2Update xc tc).2.2.map (2 * ·)) := by
  unfold r2Update
  simp only [List.map_map]
  rw [zipWith_dup_cols _ (fun x t => (List.zipWith (fun a y => (y - a) * (y - a)) x t).sum) xc tc
    (fun p hp => sum_zipWith_dup _ _ _ (hx p hp))]
  refine Prod.ext ?_ (Prod.ext ?_ rfl)
  · apply List.map_congr_left; intro t _; exact sum_map_append_self t _
  · apply List.map_congr_left; intro t _; exact sum_append_self t

/-- `R2Score` (no adjustment) on the duplicated `(n, d)` data: `n ↦ 2n` rows. -/
theorem r2_model_dup (xc tc : Mat) (n : Nat) (mo : MultiOut) (hn : 2 ≤ n)
    (hx : ∀ p ∈ xc.zip tc, p.1.length = p.2.length) :
    let u := r2Update xc tc
    let u' := r2Update (xc.map fun c => c ++ c) (tc.map fun c => c ++ c)
    r2Compute u'.1 u'.2.1 u'.2.2 ((2 * n : Nat) : Q) mo 0 = r2Compute u.1 u.2.1 u.2.2 (n : Q) mo 0 := by
  intro u u'
  have e : u' = (u.1.map (2 * ·), u.2.1.map (2 * ·), u.2.2.map (2 * ·)) := r2Update_dup xc tc hx
  rw [e, natCast_two_mul]
  exact r2Compute_dup _ _ _ _ mo (by exact_mod_cast hn)

example : (2 : Nat) ≤ 3 ∧ ∀ p ∈ ([[1, 2, 4]] : Mat).zip [[1, 3, 3]], p.1.length = p.2.length := by decide +kernel

/-- with `num_regressors = p > 0` the adjustment `(n−1)/(n−p−1)` depends on `n`: duplicating the data
    changes adjusted R² (unadjusted `1/4` both times; adjusted with `p = 1`: `−1/2` for `n = 3`, `1/16` for `n = 6`).
    FALSE as stated: `r2Compute (sso.map (2*·)) (so.map (2*·)) (rss.map (2*·)) (2*n) mo p = r2Compute sso so rss n mo p` for `p > 0`. -/
theorem r2_adjusted_dup_witness :
    (r2Compute (r2Update [[1, 2, 4]] [[1, 3, 3]]).1 (r2Update [[1, 2, 4]] [[1, 3, 3]]).2.1
        (r2Update [[1, 2, 4]] [[1, 3, 3]]).2.2 3 .raw 1).toOption = some [.val (-1/2)]
    ∧ (r2Compute (r2Update [[1, 2, 4] ++ [1, 2, 4]] [[1, 3, 3] ++ [1, 3, 3]]).1
        (r2Update [[1, 2, 4] ++ [1, 2, 4]] [[1, 3, 3] ++ [1, 3, 3]]).2.1
        (r2Update [[1, 2, 4] ++ [1, 2, 4]] [[1, 3, 3] ++ [1, 3, 3]]).2.2 6 .raw 1).toOption = some [.val (1/16)] := by
  decide +kernel

/-- why `2 ≤ n` is needed: a single observation is rejected (`ValueError`), its duplicate is not (`nan`). -/
theorem r2_single_sample_dup_witness :
    (r2Compute [1] [1] [0] 1 .raw 0).toOption = none
      ∧ (r2Compute ([1].map (2 * ·)) ([1].map (2 * ·)) ([0].map (2 * ·)) (2 * 1) .raw 0).toOption = some [.nan] := by
  decide +kernel

end R2

/-! ## 6. click-through rate, weighted calibration -/
section Ctr
open TE.Rank

theorem ctrUpdate_dup (input ws : List Q) (hlen : input.length = ws.length) :
    ctrUpdate (input ++ input) (ws ++ ws) = (2 * (ctrUpdate input ws).1, 2 * (ctrUpdate input ws).2) := by
  unfold ctrUpdate
  simp only [qsum_eq_sum, sum_zip_map_dup _ _ _ hlen, sum_append_self]

/-- **click-through rate** (exact `eps = 0`; the code's `finfo.tiny` in the denominator is a float artefact),
    including zero total weight. -/
theorem ctr_dup (input ws : List Q) (hlen : input.length = ws.length) :
    ctrCompute 0 (ctrUpdate (input ++ input) (ws ++ ws)).1 (ctrUpdate (input ++ input) (ws ++ ws)).2
      = ctrCompute 0 (ctrUpdate input ws).1 (ctrUpdate input ws).2 := by
  rw [ctrUpdate_dup _ _ hlen]
  unfold ctrCompute
  simp only [Rat.add_zero, xdiv_scale _ _ _ two_pos]

example : ctrCompute 0 (ctrUpdate ([1, 0, 1] ++ [1, 0, 1]) ([1, 2, 1] ++ [1, 2, 1])).1
    (ctrUpdate ([1, 0, 1] ++ [1, 0, 1]) ([1, 2, 1] ++ [1, 2, 1])).2 = .val (1/2) := by decide +kernel

theorem wcUpdate_dup (input target w : List Q) (h1 : input.length = w.length) (h2 : target.length = w.length) :
    wcUpdate (input ++ input) (target ++ target) (w ++ w)
      = (2 * (wcUpdate input target w).1, 2 * (wcUpdate input target w).2) := by
  unfold wcUpdate
  simp only [qsum_eq_sum, sum_zip_map_dup _ _ _ h1.symm, sum_zip_map_dup _ _ _ h2.symm]

/-- **weighted calibration** `Σw·input / Σw·target`, including a zero denominator. -/
theorem wc_dup (input target w : List Q) (h1 : input.length = w.length) (h2 : target.length = w.length) :
    xdiv (wcUpdate (input ++ input) (target ++ target) (w ++ w)).1 (wcUpdate (input ++ input) (target ++ target) (w ++ w)).2
      = xdiv (wcUpdate input target w).1 (wcUpdate input target w).2 := by
  rw [wcUpdate_dup _ _ _ h1 h2]
  simp only [xdiv_scale _ _ _ two_pos]

example : xdiv (wcUpdate ([1/2, 1/4] ++ [1/2, 1/4]) ([1, 0] ++ [1, 0]) ([1, 2] ++ [1, 2])).1
    (wcUpdate ([1/2, 1/4] ++ [1/2, 1/4]) ([1, 0] ++ [1, 0]) ([1, 2] ++ [1, 2])).2 = .val 1 := by decide +kernel
end Ctr

/-! ## 7. normalized entropy, perplexity -/
section Entropy
open TE.Agg

theorem bneUpdate_dup (ln exp : Q → Q) (fl : Bool) (xs ts ws : List Q)
    (h1 : xs.length = ts.length) (h2 : ts.length = ws.length) :
    bneUpdate ln exp fl (xs ++ xs) (ts ++ ts) (some (ws ++ ws))
      = (2 * (bneUpdate ln exp fl xs ts (some ws)).1, 2 * (bneUpdate ln exp fl xs ts (some ws)).2.1,
         2 * (bneUpdate ln exp fl xs ts (some ws)).2.2) := by
  unfold bneUpdate
  simp only
  rw [List.zip_append h1, List.zipWith_append (by simp [List.length_zip, h1, h2]), sum_append_self,
    sum_zipWith_dup _ _ _ h2.symm, sum_append_self]

theorem bneCompute_dup (ln : Q → Q) (ce pos ex : Q) :
    bneCompute ln (2 * ce) (2 * pos) (2 * ex) = bneCompute ln ce pos ex := by
  unfold bneCompute bneBaseline
  simp only [div_scale 2 _ _ two_ne_zero, mul_eq_zero_iff 2 ex two_ne_zero]

/-- **binary normalized entropy** (arbitrary `ln`, `exp`; probabilities or logits): the three statistics double
    and `compute` — mean cross entropy over the entropy of the clamped base rate — is unchanged,
    also when there is no weight (`nan`). -/
theorem bne_dup (ln exp : Q → Q) (fl : Bool) (xs ts ws : List Q) (h1 : xs.length = ts.length) (h2 : ts.length = ws.length) :
    let u := bneUpdate ln exp fl xs ts (some ws)
    let u' := bneUpdate ln exp fl (xs ++ xs) (ts ++ ts) (some (ws ++ ws))
    u' = (2 * u.1, 2 * u.2.1, 2 * u.2.2) ∧ bneCompute ln u'.1 u'.2.1 u'.2.2 = bneCompute ln u.1 u.2.1 u.2.2 := by
  intro u u'
  have e : u' = (2 * u.1, 2 * u.2.1, 2 * u.2.2) := bneUpdate_dup ln exp fl xs ts ws h1 h2
  refine ⟨e, ?_⟩
  rw [e]; exact bneCompute_dup ln _ _ _

example : ([1/2, 1/4] : List Q).length = ([1, 0] : List Q).length ∧ ([1, 0] : List Q).length = ([1, 2] : List Q).length
    ∧ (bneUpdate (fun x => x - 1) id false [1/2, 1/4] [1, 0] (some [1, 2])).2 = (1, 3) := by decide +kernel

/-- **perplexity** (arbitrary `exp`): summed negative log-likelihood and token count double. -/
theorem pplCompute_dup (exp : Q → Q) (s n : Q) : pplCompute exp (2 * s) (2 * n) = pplCompute exp s n := by
  unfold pplCompute pplArg; rw [xdiv_scale _ _ _ two_pos]

example : pplCompute (fun x => 2 * x) (2 * 3) (2 * 2) = .val 3 ∧ pplCompute id (2 * 0) (2 * 0) = .nan := by decide +kernel
end Entropy

/-! ## 8. ranking -/
section Ranking
open TE.Rank

theorem ranks_dup (rows : List (List Q)) (target : List Int) (hlen : rows.length = target.length) :
    ranks (rows ++ rows) (target ++ target) = (ranks rows target).map fun l => l ++ l := by
  unfold ranks
  rw [List.zip_append hlen, mapM_append_self]

/-- **hit rate**: the per-sample values of the duplicated batch are the per-sample values twice
    (and the same rejection: `k ≤ 0`, a target outside `[0, C)`). -/
theorem hitRate_dup (rows : List (List Q)) (C : Nat) (target : List Int) (k : Option Int)
    (hlen : rows.length = target.length) :
    hitRate (rows ++ rows) C (target ++ target) k = (hitRate rows C target k).map fun l => l ++ l := by
  unfold hitRate
  cases k with
  | none => simp [Except.map]
  | some k =>
    simp only
    by_cases h1 : k ≤ 0
    · simp [h1, Except.map]
    · by_cases h2 : (C : Int) ≤ k
      · simp [h1, h2, Except.map]
      · simp only [h1, h2, if_false, ranks_dup rows target hlen]
        cases ranks rows target <;> simp [bind, Except.bind, Except.map, pure, Except.pure]

/-- **reciprocal rank**: likewise. -/
theorem reciprocalRank_dup (rows : List (List Q)) (target : List Int) (k : Option Int)
    (hlen : rows.length = target.length) :
    reciprocalRank (rows ++ rows) (target ++ target) k = (reciprocalRank rows target k).map fun l => l ++ l := by
  unfold reciprocalRank
  rw [ranks_dup rows target hlen]
  cases ranks rows target <;> simp [bind, Except.bind, Except.map, pure, Except.pure]

/-- … so their mean (`tensor.mean()`, `nan` for no sample) is unchanged. -/
theorem mean_dup (l : List Q) : xdiv (l ++ l).sum ((l ++ l).length : Q) = xdiv l.sum (l.length : Q) := by
  rw [sum_append_self, List.length_append, natCast_add_self, xdiv_scale _ _ _ two_pos]

example : (hitRate ([[1/2, 1/4, 1/8], [1/8, 1/2, 1/4]] ++ [[1/2, 1/4, 1/8], [1/8, 1/2, 1/4]]) 3 ([0, 2] ++ [0, 2]) (some 1)).toOption
    = some [1, 0, 1, 0] := by decide +kernel
example : (reciprocalRank ([[1/2, 1/4, 1/8], [1/8, 1/2, 1/4]] ++ [[1/2, 1/4, 1/8], [1/8, 1/2, 1/4]]) ([0, 2] ++ [0, 2]) none).toOption
    = some [1, 1/2, 1, 1/2] := by decide +kernel

/-- mean hit rate / mean reciprocal rank of the duplicated batch. -/
theorem hitRate_mean_dup (rows : List (List Q)) (C : Nat) (target : List Int) (k : Option Int)
    (hlen : rows.length = target.length) :
    (hitRate (rows ++ rows) C (target ++ target) k).map (fun l => xdiv l.sum (l.length : Q))
      = (hitRate rows C target k).map fun l => xdiv l.sum (l.length : Q) := by
  rw [hitRate_dup rows C target k hlen]
  cases hitRate rows C target k <;> simp only [Except.map, mean_dup]

theorem reciprocalRank_mean_dup (rows : List (List Q)) (target : List Int) (k : Option Int)
    (hlen : rows.length = target.length) :
    (reciprocalRank (rows ++ rows) (target ++ target) k).map (fun l => xdiv l.sum (l.length : Q))
      = (reciprocalRank rows target k).map fun l => xdiv l.sum (l.length : Q) := by
  rw [reciprocalRank_dup rows target k hlen]
  cases reciprocalRank rows target k <;> simp only [Except.map, mean_dup]
end Ranking
end TE.MetaL
