/-
  TE.Lemmas.SyncStates — dict states, one state of any kind, and a whole state collection in
  traversal order (`sync_states`) on a whole group.
-/
import TE.Lemmas.SyncListAll
namespace TE.Sync
open TE.Spec.Sync

/-! ### sorted keys, lookups -/

theorem mem_insertKey (k x : String) (l : List String) : x ∈ insertKey k l ↔ x = k ∨ x ∈ l := by
  induction l with
  | nil => simp [insertKey]
  | cons a l ih =>
    simp only [insertKey]
    split
    · simp
    · simp only [List.mem_cons, ih]
      constructor
      · rintro (h | h | h)
        · exact Or.inr (Or.inl h)
        · exact Or.inl h
        · exact Or.inr (Or.inr h)
      · rintro (h | h | h)
        · exact Or.inr (Or.inl h)
        · exact Or.inl h
        · exact Or.inr (Or.inr h)

theorem mem_sortKeys (x : String) (l : List String) : x ∈ sortKeys l ↔ x ∈ l := by
  induction l with
  | nil => simp [sortKeys]
  | cons a l ih =>
    have : sortKeys (a :: l) = insertKey a (sortKeys l) := rfl
    rw [this, mem_insertKey, ih]; simp

theorem lookupKey_eq_none {α : Type} (k : String) (kv : List (String × α)) :
    lookupKey k kv = none ↔ k ∉ kv.map (·.1) := by
  induction kv with
  | nil => simp [lookupKey]
  | cons a kv ih =>
    obtain ⟨a1, a2⟩ := a
    simp only [lookupKey, List.map_cons, List.mem_cons, not_or]
    by_cases h : a1 = k
    · simp [h]
    · have : (a1 == k) = false := by simpa using h
      simp only [this, Bool.false_eq_true, if_false, ih]
      constructor
      · intro h'; exact ⟨fun e => h e.symm, h'⟩
      · intro h'; exact h'.2

theorem lookupKey_isSome {α : Type} (k : String) (kv : List (String × α)) (h : k ∈ kv.map (·.1)) :
    ∃ v, lookupKey k kv = some v := by
  cases hl : lookupKey k kv with
  | none => exact absurd h ((lookupKey_eq_none k kv).mp hl)
  | some v => exact ⟨v, rfl⟩

/-- looking a key up in `zip ks [kv[k] for k in ks]` finds `kv[k]` for the keys in `ks`. -/
theorem lookupKey_zip_values {α : Type} (kv : List (String × α)) (q : String) :
    ∀ ks : List String, (∀ k ∈ ks, k ∈ kv.map (·.1)) →
      lookupKey q (List.zip ks (valuesByKeys kv ks)) = if q ∈ ks then lookupKey q kv else none := by
  intro ks
  induction ks with
  | nil => intro _; simp [valuesByKeys, lookupKey]
  | cons a ks ih =>
    intro hk
    obtain ⟨v, hv⟩ := lookupKey_isSome a kv (hk a (List.mem_cons_self ..))
    have ih' := ih (fun k h => hk k (List.mem_cons_of_mem _ h))
    simp only [valuesByKeys] at ih' ⊢
    simp only [List.filterMap_cons, hv, List.zip_cons_cons, lookupKey]
    by_cases h : a = q
    · subst h; simp [hv]
    · have hb : (a == q) = false := by simpa using h
      have hq : q ≠ a := fun e => h e.symm
      simp only [hb, Bool.false_eq_true, if_false, ih', List.mem_cons, hq, false_or]

/-- **a dict state comes back as the same map**: under every key the canonical listing holds what
    the original dict holds. -/
theorem canonDict_lookup (kv : List (String × Tensor)) (q : String) :
    lookupKey q (canonDict kv) = lookupKey q kv := by
  simp only [canonDict]
  rw [lookupKey_zip_values kv q _ (fun k h => (mem_sortKeys k _).mp h)]
  split
  · rfl
  · next h =>
    symm
    rw [lookupKey_eq_none]
    intro h'
    exact h ((mem_sortKeys q _).mpr h')

theorem valuesByKeys_length {α : Type} (kv : List (String × α)) :
    ∀ ks : List String, (∀ k ∈ ks, k ∈ kv.map (·.1)) → (valuesByKeys kv ks).length = ks.length := by
  intro ks
  induction ks with
  | nil => intro _; rfl
  | cons a ks ih =>
    intro hk
    obtain ⟨v, hv⟩ := lookupKey_isSome a kv (hk a (List.mem_cons_self ..))
    have := ih (fun k h => hk k (List.mem_cons_of_mem _ h))
    simp only [valuesByKeys] at this ⊢
    simp [hv, this]

/-- …and it lists exactly the dict's keys (sorted). -/
theorem canonDict_keys (kv : List (String × Tensor)) :
    (canonDict kv).map (·.1) = sortKeys (kv.map (·.1)) := by
  simp only [canonDict]
  rw [List.map_fst_zip]
  rw [valuesByKeys_length kv _ (fun k h => (mem_sortKeys k _).mp h)]
  exact Nat.le_refl _

/-! ### `_sync_dict_tensor_states` -/

section
variable (g : List Nat) (n : Nat) (dst : Option Nat) (junk : Nat → Q)

theorem yields_syncDict (hg : IsGroup g n) (hd : DstIn n dst) (kv : Nat → List (String × Tensor))
    (ks : List String) (dt : DType) (k : Nat)
    (hk : ∀ i, i < n → sortKeys ((kv i).map (·.1)) = ks)
    (hv : ListSendable n (fun i => valuesByKeys (kv i) ks) dt k) :
    Yields g ((List.range n).map fun i => syncDict (envOf g n dst junk i) (kv i) (col0 n))
      ((List.range n).map fun i => colAfter n dst (fun j => TState.dict (canonDict (kv j))) i) := by
  rw [List.map_congr_left (g := fun i =>
    (syncList (envOf g n dst junk i) (valuesByKeys (kv i) ks) (col0 n)).bind
      fun col' => Prog.done (rezipAll (envOf g n dst junk i) ks col'))]
  · apply Yields.bind_map (G := fun i => colAfter n dst (fun j => TState.list (valuesByKeys (kv j) ks)) i)
      (yields_syncList g n dst junk (fun i => valuesByKeys (kv i) ks) hg hd dt k hv)
    rw [List.map_congr_left (g := fun i => Prog.done (colAfter n dst (fun j => TState.dict (canonDict (kv j))) i))]
    · exact yields_done g (List.range n) _
    · intro i _
      simp only [rezipAll, envOf_recv, colAfter]
      congr 1
      split
      · simp only [colF, List.map_map]
        apply List.map_congr_left
        intro j hj
        simp only [Function.comp, rezip, listCell, canonDict, hk j (List.mem_range.mp hj)]
      · rfl
  · intro i hi
    simp only [syncDict, hk i (List.mem_range.mp hi)]

/-! ### one state of any kind -/

theorem colAfter_congr (V W : Nat → TState) (h : ∀ j, j < n → V j = W j) (i : Nat) :
    colAfter n dst V i = colAfter n dst W i := by
  simp only [colAfter, colF]
  split
  · exact List.map_congr_left fun j hj => h j (List.mem_range.mp hj)
  · rfl

theorem yields_syncOne (hg : IsGroup g n) (hd : DstIn n dst) (st : Nat → TState) (hs : StateOk n st) :
    Yields g ((List.range n).map fun i => syncOne (envOf g n dst junk i) (st i))
      ((List.range n).map fun i => colAfter n dst (fun j => canon (st j)) i) := by
  have hcol : ∀ i, List.replicate (envOf g n dst junk i).ws placeholder = col0 n := fun _ => rfl
  cases hs with
  | tensor T dt k h hT =>
    rw [List.map_congr_left (g := fun i => syncTensor (envOf g n dst junk i) (T i) (col0 n))
      (fun i hi => by simp only [syncOne, h i (List.mem_range.mp hi), hcol])]
    rw [List.map_congr_left (g := fun i => colAfter n dst (fun j => TState.tensor (T j)) i)
      (fun i _ => colAfter_congr n dst _ _ (fun j hj => by rw [h j hj]; rfl) i)]
    exact yields_syncTensor g n hg dst junk hd T dt k hT
  | list xs dt k h hx =>
    rw [List.map_congr_left (g := fun i => syncList (envOf g n dst junk i) (xs i) (col0 n))
      (fun i hi => by simp only [syncOne, h i (List.mem_range.mp hi), hcol])]
    rw [List.map_congr_left (g := fun i => colAfter n dst (fun j => TState.list (xs j)) i)
      (fun i _ => colAfter_congr n dst _ _ (fun j hj => by rw [h j hj]; rfl) i)]
    exact yields_syncList g n dst junk xs hg hd dt k hx
  | dict kv ks dt k h hk hv =>
    rw [List.map_congr_left (g := fun i => syncDict (envOf g n dst junk i) (kv i) (col0 n))
      (fun i hi => by simp only [syncOne, h i (List.mem_range.mp hi), hcol])]
    rw [List.map_congr_left (g := fun i => colAfter n dst (fun j => TState.dict (canonDict (kv j))) i)
      (fun i _ => colAfter_congr n dst _ _ (fun j hj => by rw [h j hj]; rfl) i)]
    exact yields_syncDict g n dst junk hg hd kv ks dt k hk hv
  | int N h =>
    rw [List.map_congr_left (g := fun i => syncObj (envOf g n dst junk i) (Obj.int (N i)) (col0 n))
      (fun i hi => by simp only [syncOne, h i (List.mem_range.mp hi), hcol])]
    rw [List.map_congr_left (g := fun i => colAfter n dst (fun j => objState (Obj.int (N j))) i)
      (fun i _ => colAfter_congr n dst _ _ (fun j hj => by rw [h j hj]; rfl) i)]
    exact yields_syncObj g n hg dst junk hd _
  | float F h =>
    rw [List.map_congr_left (g := fun i => syncObj (envOf g n dst junk i) (Obj.float (F i)) (col0 n))
      (fun i hi => by simp only [syncOne, h i (List.mem_range.mp hi), hcol])]
    rw [List.map_congr_left (g := fun i => colAfter n dst (fun j => objState (Obj.float (F j))) i)
      (fun i _ => colAfter_congr n dst _ _ (fun j hj => by rw [h j hj]; rfl) i)]
    exact yields_syncObj g n hg dst junk hd _

/-! ### the whole traversal -/

theorem colAfter_getElem? (V : Nat → TState) (i j : Nat) (hr : receives dst i = true) (hj : j < n) :
    (colAfter n dst V i)[j]? = some (V j) := by
  simp [colAfter, hr, colF, List.getElem?_map, List.getElem?_range hj]

/-- the columns of all states: on receiving members, row `j` read across the columns is what
    member `j` sent (in canonical form). -/
theorem yields_syncCols (hg : IsGroup g n) (hd : DstIn n dst) (E : Nat → List (Key × TState))
    (hE : Syncable n E) :
    ∃ C : Nat → List (List TState),
      Yields g ((List.range n).map fun i => syncCols (envOf g n dst junk i) (E i)) ((List.range n).map C) ∧
      ∀ i, i < n → receives dst i = true → ∀ j, j < n →
        rowOf ((E i).map (·.1)) (C i) j = (E j).map canonEntry := by
  induction hE with
  | @nil E h =>
    refine ⟨fun _ => [], ?_, ?_⟩
    · rw [List.map_congr_left (g := fun _ => Prog.done ([] : List (List TState)))
        (fun i hi => by rw [h i (List.mem_range.mp hi)]; rfl)]
      exact yields_done g (List.range n) _
    · intro i hi _ j hj
      rw [h i hi, h j hj]; rfl
  | @cons E key st E' h hs _ ih =>
    obtain ⟨C', hY, hrow⟩ := ih
    refine ⟨fun i => colAfter n dst (fun j => canon (st j)) i :: C' i, ?_, ?_⟩
    · rw [List.map_congr_left (g := fun i =>
        (syncOne (envOf g n dst junk i) (st i)).bind fun c =>
          (syncCols (envOf g n dst junk i) (E' i)).bind fun cs => Prog.done (c :: cs))
        (fun i hi => by rw [h i (List.mem_range.mp hi)]; rfl)]
      apply Yields.bind_map (G := fun i => colAfter n dst (fun j => canon (st j)) i)
        (yields_syncOne g n dst junk hg hd st hs)
      apply Yields.bind_map (G := C') hY
      exact yields_done g (List.range n) _
    · intro i hi hr j hj
      rw [h i hi, h j hj]
      simp only [List.map_cons, rowOf, List.zipWith_cons_cons, colAfter_getElem? n dst _ i j hr hj]
      have := hrow i hi hr j hj
      simp only [rowOf] at this
      rw [this]; rfl

/-- **`sync_states`** on an already flattened collection. -/
theorem yields_syncFlat (hg : IsGroup g n) (hd : DstIn n dst) (E : Nat → List (Key × TState))
    (hE : Syncable n E) :
    Yields g ((List.range n).map fun i => syncFlat (envOf g n dst junk i) (E i))
      ((List.range n).map fun i => gathered n dst (fun j => (E j).map canonEntry) i) := by
  obtain ⟨C, hY, hrow⟩ := yields_syncCols g n dst junk hg hd E hE
  simp only [syncFlat]
  apply Yields.bind_map (G := C) hY
  rw [List.map_congr_left (g := fun i => Prog.done (gathered n dst (fun j => (E j).map canonEntry) i))]
  · exact yields_done g (List.range n) _
  · intro i hi
    simp only [syncResult, envOf_recv, gathered]
    congr 1
    cases hr : receives dst i
    · rfl
    · simp only [if_true, allOf]
      congr 1
      exact List.map_congr_left fun j hj => hrow i (List.mem_range.mp hi) hr j (List.mem_range.mp hj)
end

end TE.Sync
