/-
  TE.Driver.Rank — protocol adapters of the Rank family (see TE/Driver/Count.lean for the conventions):
  unpack tensors, perform the shape checks of the real `_input_check`s, call the typed model
  (TE/Model/Rank.lean) or the textbook definition (TE/Spec/Rank.lean, `spec.*` requests).
-/
import TE.Driver.Fam
import TE.Model.Rank
import TE.Model.Fams
import TE.Spec.Rank
namespace TE.Driver
open TE TE.Rank

namespace RankA

def io (a : Args) : Except Err (T × T) := liftP do
  let i ← a.tensor "input"; let t ← a.tensor "target"; pure (i, t)

def ints (d : List Q) : Except String (List Int) :=
  d.mapM fun q => match qToInt? q with
    | some n => .ok n | none => .error "non-integer entry"

/-- `k=` : absent / `none` ↦ none, else an integer. -/
def kOf (a : Args) : Except String (Option Int) :=
  match a.get? "k" with
  | none | some (.s "none") => .ok none
  | some (.s s) => match s.toInt? with | some n => .ok (some n) | none => .error "k not an int"
  | _ => .error "k not an int"

def natOfK (k : Option Int) : Option Nat := k.map Int.toNat

def numTasks (a : Args) : Except String Nat := do
  match a.get? "num_tasks" with
  | none => pure 1
  | _ => a.nat "num_tasks"

/-- scalar | per-task vector rendering: a 1-D input gives a 0-dim result. -/
def renderTasksX (oneD : Bool) (v : List XQ) : String :=
  if oneD then showScalarX (v.headD .nan) else showVecX v

/-- rows of a 1-D (one task) or 2-D (tasks × samples) tensor. -/
def taskRows (x : T) : List (List Q) := if x.ndim == 1 then [x.data] else x.rows

/-! hit rate / reciprocal rank -/

def hitStat (k : Option Int) (a : Args) : Except Err (List Q) := do
  let (i, t) ← io a
  if t.ndim != 1 then throw .value
  if i.ndim != 2 then throw .value
  if i.shape.head? != t.shape.head? then throw .value
  let tg ← liftP (ints t.data)
  Fams.hitRateStat (i.shape[1]?.getD 0) k (i.rows, tg)

def rrStat (k : Option Int) (a : Args) : Except Err (List Q) := do
  let (i, t) ← io a
  if t.ndim != 1 then throw .value
  if i.ndim != 2 then throw .value
  if i.shape.head? != t.shape.head? then throw .value
  let tg ← liftP (ints t.data)
  Fams.reciprocalRankStat k (i.rows, tg)

def listPack (stat : Args → Except Err (List Q)) : Pack :=
  ⟨List Q, additive (listAcc Q) stat (fun l => .ok (showVecQ l))⟩

def packHitRate (cfg : Args) : Except String Pack :=
  match kOf cfg with
  | .ok k => .ok (listPack (hitStat k))
  | .error m => .error m
def packReciprocalRank (cfg : Args) : Except String Pack :=
  match kOf cfg with
  | .ok k => .ok (listPack (rrStat k))
  | .error m => .error m

def fnHitRate (a : Args) : Except Err String := do
  let k ← liftP (kOf a); let r ← hitStat k a; pure (showVecQ r)
def fnReciprocalRank (a : Args) : Except Err String := do
  let k ← liftP (kOf a); let r ← rrStat k a; pure (showVecQ r)

/-- textbook hit rate / reciprocal rank on valid inputs (rank by explicit sorting). -/
def specRankFn (f : Option Nat → List (List Q) → List Int → Option (List Q)) (a : Args) : Except Err String := do
  let k ← liftP (kOf a)
  let (i, t) ← io a
  let tg ← liftP (ints t.data)
  match f (natOfK k) i.rows tg with
  | some r => pure (showVecQ r)
  | none => throw .other

def specHitRate : Args → Except Err String := specRankFn Spec.Rank.hitRate
def specReciprocalRank : Args → Except Err String := specRankFn Spec.Rank.reciprocalRank

/-! retrieval precision / recall (functional) -/

def retrievalFn (kind : Kind) (a : Args) : Except Err String := do
  let k ← liftP (kOf a); let limit := a.bool "limit_k_to_size" false
  let nt ← liftP (numTasks a)
  if !paramOk k limit then throw .value
  let (i, t) ← io a
  if i.shape != t.shape then throw .value
  if nt == 1 && i.ndim != 1 then throw .value
  if nt != 1 && (i.ndim != 2 || i.shape.head? != some nt) then throw .value
  let kn := natOfK k
  let rows := (taskRows i).zip (taskRows t)
  let vals := rows.map fun p =>
    match kind with
    | .precision => precisionPairs kn limit (p.1.zip p.2)
    | .recall => recallPairs kn (p.1.zip p.2)
  pure (renderTasksX (i.ndim == 1) vals)

def specRetrievalFn (kind : Kind) (a : Args) : Except Err String := do
  let k ← liftP (kOf a); let limit := a.bool "limit_k_to_size" false
  let (i, t) ← io a
  let kn := natOfK k
  let rows := (taskRows i).zip (taskRows t)
  let vals := rows.map fun p =>
    match kind with
    | .precision => Spec.Rank.precision kn limit (p.1.zip p.2)
    | .recall => Spec.Rank.recall kn (p.1.zip p.2)
  pure (renderTasksX (i.ndim == 1) vals)

/-! RetrievalPrecision / RetrievalRecall classes -/

def parseAction (s : String) : Action :=
  match s with
  | "neg" => .neg | "pos" => .pos | "skip" => .skip | "err" => .err | _ => .other

def retrievalCfg (kind : Kind) (cfg : Args) : Except String RCfg := do
  let k ← kOf cfg; let limit := cfg.bool "limit_k_to_size" false
  if !paramOk k limit then throw "constructor raises ValueError"
  let nq ← (match cfg.get? "num_queries" with | none => pure 1 | _ => cfg.nat "num_queries")
  pure { kind, k := natOfK k, limit, numQueries := nq,
         action := parseAction (cfg.strD "empty_target_action" "neg"),
         isMacro := cfg.strD "avg" "none" == "macro" }

def retrievalImpl (c : RCfg) : Impl Args RState String where
  init := rInit c
  upd st a := do
    let (i, t) ← io a
    if i.shape != t.shape then throw .value
    if i.ndim != 1 then throw .value
    let ix ← liftP (a.tensor? "indexes")
    let ix ← (match ix with
      | none => pure none
      | some x => do let d ← liftP (ints x.data); pure (some d))
    -- boolean-mask indexing with a mask of another length raises IndexError
    if c.numQueries != 1 && (ix.map (·.length)).getD i.data.length != i.data.length then throw .index
    rUpdate c st (i.data.zip t.data) ix
  mrg st others := rMerge st others
  out st := do
    match ← rCompute c st with
    | .inl vs => pure (showVecX vs)
    | .inr v => pure (showScalarX v)

def packRetrieval (kind : Kind) (cfg : Args) : Except String Pack :=
  match retrievalCfg kind cfg with
  | .ok c => .ok ⟨RState, retrievalImpl c⟩
  | .error m => .error m

/-! click-through rate -/

/-- `weights=`: tensor, scalar literal, or absent/`none` (= 1.0) -/
inductive W where | tensor (t : T) | scalar (q : Q)

def weightOf (a : Args) (key : String) : Except String W :=
  match a.get? key with
  | none | some (.s "none") => .ok (.scalar 1)
  | some (.t x) => .ok (.tensor x)
  | some (.s s) => do pure (.scalar (← parseQ s))
  | _ => .error s!"bad {key}"

def eps32 : Q := 1 / ((2 ^ 126 : Nat) : Q)
def eps64 : Q := 1 / ((2 ^ 1022 : Nat) : Q)

def ctrStat (nt : Nat) (a : Args) : Except Err (List (Q × Q)) := do
  let i ← liftP (a.tensor "input")
  let w ← liftP (weightOf a "weights")
  if i.ndim != 1 && i.ndim != 2 then throw .value
  if (match w with | .tensor x => x.shape != i.shape | _ => false) then throw .value
  if nt == 1 && i.ndim > 1 then throw .value
  if nt != 1 && (i.ndim == 1 || i.shape.head? != some nt) then throw .value
  match w with
  | .tensor x => pure (((taskRows i).zip (taskRows x)).map fun p => ctrUpdate p.1 p.2)
  | .scalar q => pure ((taskRows i).map fun r => ctrUpdateScalar r q)

/-- the same checks; the typed batch `(task rows, weights)` of `Fams.ctrStat`. -/
def ctrBatch (nt : Nat) (a : Args) : Except Err (Mat × Fams.TW) := do
  let i ← liftP (a.tensor "input")
  let w ← liftP (weightOf a "weights")
  if i.ndim != 1 && i.ndim != 2 then throw .value
  if (match w with | .tensor x => x.shape != i.shape | _ => false) then throw .value
  if nt == 1 && i.ndim > 1 then throw .value
  if nt != 1 && (i.ndim == 1 || i.shape.head? != some nt) then throw .value
  match w with
  | .tensor x => pure (taskRows i, .tensor (taskRows x))
  | .scalar q => pure (taskRows i, .scalar q)

def fnCtr (a : Args) : Except Err String := do
  let nt ← liftP (numTasks a)
  let s ← ctrStat nt a
  let i ← liftP (a.tensor "input")
  pure (renderTasksX (i.ndim == 1) (s.map fun p => ctrCompute eps32 p.1 p.2))

def famCtr (cfg : Args) : Except String Fam := do
  let nt ← numTasks cfg
  if nt < 1 then throw "constructor raises ValueError"
  pure {
    stat := fun a => do
      let b ← ctrBatch nt a
      Fams.ctrStat b.1.length b
    outA := fun p =>
      .ok (showVecX (((part p 0 nt).zip (part p 1 nt)).map fun q => ctrCompute eps64 q.1 q.2)) }

def specCtr (a : Args) : Except Err String := do
  let i ← liftP (a.tensor "input")
  let w ← liftP (weightOf a "weights")
  let rows := taskRows i
  let ws := match w with
    | .tensor x => taskRows x
    | .scalar q => rows.map fun r => r.map fun _ => q
  pure (renderTasksX (i.ndim == 1) ((rows.zip ws).map fun p =>
    if p.2.sum = 0 then .val 0 else .val (Spec.Rank.ctr p.1 p.2)))

/-! weighted calibration -/

def wcStat (nt : Nat) (a : Args) : Except Err (List (Q × Q)) := do
  let (i, t) ← io a
  let w ← liftP (weightOf a "weight")
  if i.shape != t.shape then throw .value
  if nt == 1 && i.ndim > 1 then throw .value
  if nt != 1 && (i.ndim == 1 || i.shape.head? != some nt) then throw .value
  match w with
  | .scalar q => pure (((taskRows i).zip (taskRows t)).map fun p => wcUpdateScalar p.1 p.2 q)
  | .tensor x =>
    if x.shape != i.shape then throw .value
    pure (((taskRows i).zip ((taskRows t).zip (taskRows x))).map fun p => wcUpdate p.1 p.2.1 p.2.2)

/-- the same checks; the typed batch `(input rows, target rows, weights)` of `Fams.wcStat`. -/
def wcBatch (nt : Nat) (a : Args) : Except Err (Mat × Mat × Fams.TW) := do
  let (i, t) ← io a
  let w ← liftP (weightOf a "weight")
  if i.shape != t.shape then throw .value
  if nt == 1 && i.ndim > 1 then throw .value
  if nt != 1 && (i.ndim == 1 || i.shape.head? != some nt) then throw .value
  match w with
  | .scalar q => pure (taskRows i, taskRows t, .scalar q)
  | .tensor x =>
    if x.shape != i.shape then throw .value
    pure (taskRows i, taskRows t, .tensor (taskRows x))

def fnWc (a : Args) : Except Err String := do
  let nt ← liftP (numTasks a)
  let s ← wcStat nt a
  let i ← liftP (a.tensor "input")
  pure (renderTasksX (i.ndim == 1) (s.map fun p => xdiv p.1 p.2))

def famWc (cfg : Args) : Except String Fam := do
  let nt ← numTasks cfg
  if nt < 1 then throw "constructor raises ValueError"
  pure {
    stat := fun a => do
      let b ← wcBatch nt a
      Fams.wcStat b.1.length b
    outA := fun p =>
      let den := part p 1 nt
      -- `if torch.all(self.weighted_target_sum == 0.0): return torch.empty(0)` ("no update yet")
      if den.all (· == 0) then .ok (showVecQ []) else
      .ok (showVecX (((part p 0 nt).zip den).map fun q => xdiv q.1 q.2)) }

def specWc (a : Args) : Except Err String := do
  let (i, t) ← io a
  let w ← liftP (weightOf a "weight")
  let rows := taskRows i
  let ws := match w with
    | .tensor x => taskRows x
    | .scalar q => rows.map fun r => r.map fun _ => q
  pure (renderTasksX (i.ndim == 1) ((rows.zip ((taskRows t).zip ws)).map fun p =>
    Spec.Rank.calibration p.1 p.2.1 p.2.2))

/-! collisions, frequency -/

def fnNumCollisions (a : Args) : Except Err String := do
  let i ← liftP (a.tensor "input")
  if i.ndim != 1 then throw .value
  match ints i.data with
  | .error _ => throw .value          -- non-integer dtype
  | .ok ids => pure (showVecQ ((numCollisions ids).map fun (z : Int) => (z : Q)))

def specNumCollisions (a : Args) : Except Err String := do
  let i ← liftP (a.tensor "input")
  let ids ← liftP (ints i.data)
  pure (showVecQ (ids.map fun x => ((Spec.Rank.collisions ids x : Nat) : Q)))

def fnFrequency (a : Args) : Except Err String := do
  let i ← liftP (a.tensor "input"); let k ← liftP (a.rat "k")
  if i.ndim != 1 then throw .value
  let r ← frequencyAtK i.data k
  pure (showVecQ r)

def specFrequency (a : Args) : Except Err String := do
  let i ← liftP (a.tensor "input"); let k ← liftP (a.rat "k")
  pure (showVecQ (i.data.map (Spec.Rank.frequency k)))

end RankA

/-- (functional name, class name, configured family) — sufficient-statistic / cache-all classes.
    The functionals of these two return a 0-dim tensor for one task where the class returns shape
    `(num_tasks,)` (and use another `eps` / empty-result convention), so the functional requests are
    served from `rankFns`; the family's own functional name is the class-shaped view. -/
def rankFams : List (String × String × (Args → Except String Fam)) := [
  ("click_through_rate.state", "ClickThroughRate", RankA.famCtr),
  ("weighted_calibration.state", "WeightedCalibration", RankA.famWc)
]

/-- (class name, packaged class model) — classes that are not `additive` (own state machine). -/
def rankPacks : List (String × (Args → Except String Pack)) := [
  ("HitRate", RankA.packHitRate),
  ("ReciprocalRank", RankA.packReciprocalRank),
  ("RetrievalPrecision", RankA.packRetrieval .precision),
  ("RetrievalRecall", RankA.packRetrieval .recall)
]

/-- (request name, handler) — functionals without a class twin and `spec.*` oracles. -/
def rankFns : List (String × (Args → Except Err String)) := [
  ("hit_rate", RankA.fnHitRate),
  ("reciprocal_rank", RankA.fnReciprocalRank),
  ("retrieval_precision", RankA.retrievalFn .precision),
  ("retrieval_recall", RankA.retrievalFn .recall),
  ("click_through_rate", RankA.fnCtr),
  ("weighted_calibration", RankA.fnWc),
  ("num_collisions", RankA.fnNumCollisions),
  ("frequency_at_k", RankA.fnFrequency),
  ("spec.hit_rate", RankA.specHitRate),
  ("spec.reciprocal_rank", RankA.specReciprocalRank),
  ("spec.retrieval_precision", RankA.specRetrievalFn .precision),
  ("spec.retrieval_recall", RankA.specRetrievalFn .recall),
  ("spec.click_through_rate", RankA.specCtr),
  ("spec.weighted_calibration", RankA.specWc),
  ("spec.num_collisions", RankA.specNumCollisions),
  ("spec.frequency_at_k", RankA.specFrequency)
]

end TE.Driver
