/-
  TE.Driver.Fam — a configured metric family: `stat` (validation + per-batch
  sufficient statistics = the functional `_update`) and `outA` (`_compute` +
  rendering).  The functional is `stat >=> outA`; the class is
  `additive partsAcc stat outA` — the very object `TE.Lemmas.ClassSM` reasons about.
-/
import TE.Driver.Proto
import TE.Model.Parts
namespace TE.Driver
open TE

structure Fam where
  stat : Args → Except Err Parts
  outA : Parts → Except Err String

/-- protocol-level problems inside a model call surface as `err Other`
    (never produced by the real code, so the harness flags them). -/
def liftP {α} (x : Except String α) : Except Err α :=
  match x with | .ok a => .ok a | .error _ => .error .other

def Fam.fn (f : Fam) (a : Args) : Except Err String := f.stat a >>= f.outA

def Fam.cls (f : Fam) : Impl Args Parts String := additive partsAcc f.stat f.outA

/-- a packaged class model of any state type. -/
structure Pack where
  S : Type
  impl : Impl Args S String

def Fam.pack (f : Fam) : Pack := ⟨Parts, f.cls⟩

end TE.Driver
