/-
  TE.Driver.Meta — protocol adapters for C17 (see TE/Driver/Count.lean for the conventions).
-/
import TE.Driver.Fam
namespace TE.Driver
open TE

def metaFns : List (String × (Args → Except Err String)) := []

end TE.Driver
