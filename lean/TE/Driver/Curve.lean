/-
  TE.Driver.Curve — protocol adapters of the Curve family (C05): unpack tensors,
  perform the shape / parameter checks of the real `_input_check`s, call the typed
  models of TE/Model/Curve.lean; `spec.*` oracles evaluate TE/Spec/Curve.lean.
  The classes are cache-all: they run the typed class objects of TE/Model/FamsCache.lean
  (state: the list of cached samples plus a "was updated" flag — `BinaryAUROC.compute`
  distinguishes "never updated" from "no samples"); the multiclass / multilabel / 1-D binary
  functionals run the same objects' `fn = stat >=> out`, the `(num_tasks, n)` binary functionals
  call the row form the typed `fn` is proved equal to (`FamCache.binaryAurocC_fn_eq`).
-/
import TE.Driver.Fam
import TE.Model.Curve
import TE.Model.FamsCache
import TE.Spec.Curve
namespace TE.Driver
open TE TE.Curve

/-- column `j` of every row (transposition of a row-major matrix with `c` columns). -/
def colsOf (rows : List (List Q)) (c : Nat) : List (List Q) :=
  (List.range c).map fun j => rows.map (·.getD j 0)

def curveAvg (a : Args) : Option Avg :=
  match a.strD "average" "macro" with
  | "macro" => some .macro
  | "none" => some .none
  | _ => none

def onesLike (r : List Q) : List Q := r.map fun _ => 1

def showPRCs (cs : List PRC) : String :=
  " ".intercalate (cs.map (fun c => showVecX c.precision) ++ cs.map (fun c => showVecX c.recall)
    ++ cs.map (fun c => showVecQ c.thresholds))

def showPairs (rs : List (XQ × XQ)) : String :=
  " ".intercalate (rs.map (fun r => showScalarX r.1) ++ rs.map (fun r => showScalarX r.2))

def showAvg (avg : Avg) (r : List XQ) : String :=
  match avg with
  | .macro => showScalarX (r.headD .nan)
  | .none => showVecX r

def iot (a : Args) : Except Err (T × T) := liftP do
  let i ← a.tensor "input"; let t ← a.tensor "target"; pure (i, t)

/- ---------- checks of the real `_update_input_check`s ---------- -/

def guardV (ok : Bool) : Except Err Unit := if ok then pure () else throw .value

/-- `_binary_auroc_update_input_check` -/
def binaryAurocCheck (i t : T) (w : Option T) (nt : Nat) : Except Err Unit :=
  guardV (i.shape == t.shape
    && (match w with | some w => w.shape == t.shape | none => true)
    && (if nt == 1 then i.ndim ≤ 1 else !(i.ndim == 1 || i.shape.head? != some nt)))

/-- `_binary_auprc_update_input_check` -/
def binaryAuprcCheck (i t : T) (nt : Nat) : Except Err Unit :=
  guardV (i.shape == t.shape
    && (if nt == 1 then !((i.ndim == 2 && i.shape.head?.getD 0 > 1) || i.ndim > 2)
        else i.shape.head? == some nt))

/-- `_multiclass_{auroc,auprc,precision_recall_curve}_update_input_check` -/
def multiclassCheck (i t : T) (nc : Option Nat) : Except Err Unit := do
  if i.shape.head? != t.shape.head? then throw .value
  if t.ndim != 1 then throw .value
  if !(i.ndim == 2 && (nc.isNone || i.shape[1]? == nc)) then throw .value

/-- `_multilabel_{auprc,precision_recall_curve}_update_input_check` -/
def multilabelCheck (i t : T) (nl : Nat) : Except Err Unit := do
  if i.shape != t.shape then throw .value
  if i.ndim != 2 then throw .value
  if i.shape[1]? != some nl then throw .value

/-- `_binary_precision_recall_curve_update_input_check` -/
def binaryPrCheck (i t : T) : Except Err Unit := do
  if i.ndim != 1 then throw .value
  if t.ndim != 1 then throw .value
  if i.shape != t.shape then throw .value

def minPrecisionCheck (p : Q) : Except Err Unit :=
  if 0 ≤ p ∧ p ≤ 1 then pure () else throw .value

/- ---------- computations on cached / passed samples ---------- -/

/-- rows `(scores, targets, weights)` of the tasks → result string -/
def outBinaryAuroc (scalar : Bool) (rows : List (List Q × List Q × List Q)) : Except Err String := do
  if scalar then
    match rows with
    | [r] => let v ← binaryAuroc r.1 r.2.1 r.2.2; pure (showScalarX (.val v))
    | _ => throw .other
  else
    let vs ← binaryAurocTasks rows
    pure (showVecX (vs.map XQ.val))

def outBinaryAuprc (scalar : Bool) (rows : List (List Q × List Q)) : Except Err String := do
  if scalar then
    match rows with
    | [r] => let v ← binaryAuprc r.1 r.2; pure (showScalarX v)
    | _ => throw .other
  else
    let vs ← binaryAuprcTasks rows
    pure (showVecX vs)

/- ---------- functionals ---------- -/

def zip3 (a b c : List (List Q)) : List (List Q × List Q × List Q) := a.zip (b.zip c)

def fnBinaryAuroc (a : Args) : Except Err String := do
  let (i, t) ← iot a
  let w ← liftP (a.tensor? "weight")
  let nt := (← liftP (a.nat? "num_tasks")).getD 1
  binaryAurocCheck i t w nt
  let wr := match w with | some w => w.rows | none => i.rows.map onesLike
  outBinaryAuroc (i.ndim == 1) (zip3 i.rows t.rows wr)

def fnBinaryAuprc (a : Args) : Except Err String := do
  let (i, t) ← iot a
  let nt := (← liftP (a.nat? "num_tasks")).getD 1
  binaryAuprcCheck i t nt
  -- `input[i, :]` on a 1-D tensor
  if !(nt == 1 && i.ndim == 1) && i.ndim == 1 then throw .index
  outBinaryAuprc (nt == 1 && i.ndim == 1) (i.rows.zip t.rows)

def fnMulticlassAuroc (a : Args) : Except Err String := do
  let (i, t) ← iot a
  let nc ← liftP (a.nat "num_classes")
  match curveAvg a with
  | none => throw .value
  | some avg =>
    if nc < 2 then throw .value
    multiclassCheck i t (some nc)
    let r ← (Fams.multiclassAurocC nc avg).fn (i.rows, t.data)     -- typed functional (TE/Model/FamsCache.lean)
    pure (showAvg avg r)

def fnMulticlassAuprc (a : Args) : Except Err String := do
  let (i, t) ← iot a
  let nc0 ← liftP (a.nat? "num_classes")
  let nc ← match nc0 with
    | some n => pure n
    | none => match i.shape[1]? with | some n => pure n | none => throw .index
  match curveAvg a with
  | none => throw .value
  | some avg =>
    if nc < 2 then throw .value
    multiclassCheck i t (some nc)
    let r ← (Fams.multiclassAuprcC nc avg).fn (i.rows, t.data)
    pure (showAvg avg r)

def fnMultilabelAuprc (a : Args) : Except Err String := do
  let (i, t) ← iot a
  if i.ndim != 2 then throw .value
  let nl := (← liftP (a.nat? "num_labels")).getD (i.shape[1]?.getD 0)
  match curveAvg a with
  | none => throw .value
  | some avg =>
    if nl < 2 then throw .value
    multilabelCheck i t nl
    let r ← (Fams.multilabelAuprcC nl avg).fn (i.rows, t.rows)
    pure (showAvg avg r)

def fnBinaryPrCurve (a : Args) : Except Err String := do
  let (i, t) ← iot a
  binaryPrCheck i t
  let c ← Fams.binaryPrCurveC.fn (i.data, t.data)
  pure (showPRCs [c])

def fnMulticlassPrCurve (a : Args) : Except Err String := do
  let (i, t) ← iot a
  let nc0 ← liftP (a.nat? "num_classes")
  let nc0 := if nc0.isNone && i.ndim == 2 then i.shape[1]? else nc0
  multiclassCheck i t nc0
  let nc := nc0.getD 0
  let cs ← (Fams.multiclassPrCurveC (some nc)).fn (i.rows, t.data)
  pure (showPRCs cs)

def fnMultilabelPrCurve (a : Args) : Except Err String := do
  let (i, t) ← iot a
  if i.ndim != 2 then throw .value
  let nl := (← liftP (a.nat? "num_labels")).getD (i.shape[1]?.getD 0)
  multilabelCheck i t nl
  let cs ← (Fams.multilabelPrCurveC nl).fn (i.rows, t.rows)
  pure (showPRCs cs)

def fnBinaryRecallAtPrecision (a : Args) : Except Err String := do
  let (i, t) ← iot a
  let p ← liftP (a.rat "min_precision")
  binaryPrCheck i t
  minPrecisionCheck p
  let r ← (Fams.binaryRecallAtPrecisionC p).fn (i.data, t.data)
  pure (showPairs [r])

def fnMultilabelRecallAtPrecision (a : Args) : Except Err String := do
  let (i, t) ← iot a
  let p ← liftP (a.rat "min_precision")
  let nl ← liftP (a.nat "num_labels")
  multilabelCheck i t nl
  minPrecisionCheck p
  let rs ← (Fams.multilabelRecallAtPrecisionC p nl).fn (i.rows, t.rows)
  pure (showPairs rs)

/- ---------- spec oracles (TE/Spec/Curve.lean; valid inputs only) ---------- -/

open TE.Spec.Curve in
def specBinaryAuroc (a : Args) : Except Err String := do
  let (i, t) ← iot a
  let w ← liftP (a.tensor? "weight")
  let wr := match w with | some w => w.rows | none => i.rows.map onesLike
  let vs := (zip3 i.rows t.rows wr).map fun r => XQ.val (auroc (samples r.1 r.2.1 r.2.2))
  pure (if i.ndim == 1 then showScalarX (vs.headD .nan) else showVecX vs)

def specAvg (avg : Avg) (per : List Q) : List XQ :=
  match avg with
  | .macro => [TE.Spec.Curve.mean per]
  | .none => per.map XQ.val

open TE.Spec.Curve in
def specMulticlassAuroc (a : Args) : Except Err String := do
  let (i, t) ← iot a
  let nc ← liftP (a.nat "num_classes")
  let avg := (curveAvg a).getD .macro
  let per := (colsOf i.rows nc).zipIdx.map fun cc => auroc (ovrSamples cc.2 cc.1 t.data)
  pure (showAvg avg (specAvg avg per))

def showCurves (cs : List TE.Spec.Curve.Curve) : String :=
  " ".intercalate (cs.map (fun c => showVecQ c.precision) ++ cs.map (fun c => showVecQ c.recall)
    ++ cs.map (fun c => showVecQ c.thresholds))

open TE.Spec.Curve in
def specBinaryPrCurve (a : Args) : Except Err String := do
  let (i, t) ← iot a
  pure (showCurves [prCurve (posLS i.data t.data)])

open TE.Spec.Curve in
def specMulticlassPrCurve (a : Args) : Except Err String := do
  let (i, t) ← iot a
  let nc := (← liftP (a.nat? "num_classes")).getD (i.shape[1]?.getD 0)
  pure (showCurves ((colsOf i.rows nc).zipIdx.map fun cc => prCurve (ovrLS cc.2 cc.1 t.data)))

open TE.Spec.Curve in
def specMultilabelPrCurve (a : Args) : Except Err String := do
  let (i, t) ← iot a
  let nl := (← liftP (a.nat? "num_labels")).getD (i.shape[1]?.getD 0)
  pure (showCurves (((colsOf i.rows nl).zip (colsOf t.rows nl)).map fun c => prCurve (posLS c.1 c.2)))

open TE.Spec.Curve in
def specBinaryAuprc (a : Args) : Except Err String := do
  let (i, t) ← iot a
  let nt := (← liftP (a.nat? "num_tasks")).getD 1
  let vs := (i.rows.zip t.rows).map fun r => XQ.val (auprc (posLS r.1 r.2))
  pure (if nt == 1 && i.ndim == 1 then showScalarX (vs.headD .nan) else showVecX vs)

open TE.Spec.Curve in
def specMulticlassAuprc (a : Args) : Except Err String := do
  let (i, t) ← iot a
  let nc := (← liftP (a.nat? "num_classes")).getD (i.shape[1]?.getD 0)
  let avg := (curveAvg a).getD .macro
  let per := (colsOf i.rows nc).zipIdx.map fun cc => auprc (ovrLS cc.2 cc.1 t.data)
  pure (showAvg avg (specAvg avg per))

open TE.Spec.Curve in
def specMultilabelAuprc (a : Args) : Except Err String := do
  let (i, t) ← iot a
  let nl := (← liftP (a.nat? "num_labels")).getD (i.shape[1]?.getD 0)
  let avg := (curveAvg a).getD .macro
  let per := ((colsOf i.rows nl).zip (colsOf t.rows nl)).map fun c => auprc (posLS c.1 c.2)
  pure (showAvg avg (specAvg avg per))

open TE.Spec.Curve in
def specRP (l : List LS) (p : Q) : XQ × XQ :=
  match recallAtPrecision l p with
  | none => (.nan, .nan)
  | some r => match bestThreshold l r with
    | none => (.val r, .nan)
    | some t => (.val r, .val (qabs t))

open TE.Spec.Curve in
def specBinaryRecallAtPrecision (a : Args) : Except Err String := do
  let (i, t) ← iot a
  let p ← liftP (a.rat "min_precision")
  pure (showPairs [specRP (posLS i.data t.data) p])

open TE.Spec.Curve in
def specMultilabelRecallAtPrecision (a : Args) : Except Err String := do
  let (i, t) ← iot a
  let p ← liftP (a.rat "min_precision")
  let nl := (← liftP (a.nat? "num_labels")).getD (i.shape[1]?.getD 0)
  pure (showPairs (((colsOf i.rows nl).zip (colsOf t.rows nl)).map fun c => specRP (posLS c.1 c.2) p))

/- ---------- cache-all classes ---------- -/

/- The classes are the typed objects of TE/Model/FamsCache.lean (`Fams.…C : CFam`): the state is
   `(updated?, cached samples)`; the adapters parse the tensors, perform the shape checks of the
   real `_update_input_check`s, hand the batch to the typed `update`, and render the typed `compute`. -/

/-- adapter of a typed class: parse + shape checks, typed `upd / mrg / out`, rendering. -/
def packOf {B S O : Type} (m : Impl B S O) (parse : Args → Except Err B)
    (render : O → Except Err String) : Pack :=
  ⟨S, { init := m.init
        upd := fun s a => do let b ← parse a; m.upd s b
        mrg := m.mrg
        out := fun s => do let o ← m.out s; render o }⟩

/-- a configuration the constructor rejects (`ValueError`): every `update` / `compute` fails. -/
def rejectPack : Pack :=
  ⟨Unit, { init := (), upd := fun _ _ => .error .value, mrg := fun s _ => .ok s, out := fun _ => .error .value }⟩

/-- one record per sample index: the entries of all `rows` at that index. -/
def recordsOf (rows : List (List Q)) (n : Nat) : List (List Q) := colsOf rows n

def lastDim (x : T) : Nat := x.shape.getLastD 0

/-- `Pack` lives one universe up, so configuration parsing cannot use `do`-binds. -/
def withNat? (cfg : Args) (k : String) (f : Option Nat → Except String Pack) : Except String Pack :=
  match cfg.nat? k with | .ok v => f v | .error e => .error e
def withNat (cfg : Args) (k : String) (f : Nat → Except String Pack) : Except String Pack :=
  match cfg.nat k with | .ok v => f v | .error e => .error e
def withRat (cfg : Args) (k : String) (f : Q → Except String Pack) : Except String Pack :=
  match cfg.rat k with | .ok v => f v | .error e => .error e

/-- the column of a `(num_tasks, n)` triple of tensors at one sample index. -/
def splitRec3 (nt : Nat) (r : List Q) : Fams.TaskSample := (r.take nt, (r.drop nt).take nt, r.drop (2 * nt))

def splitRec2 (nt : Nat) (r : List Q) : Fams.TaskPair := (r.take nt, r.drop nt)

def packBinaryAuroc (cfg : Args) : Except String Pack :=
  withNat? cfg "num_tasks" fun nt0 =>
  let nt := nt0.getD 1
  .ok <| packOf (Fams.binaryAurocC nt).cls
    (fun a => do
      let (i, t) ← iot a
      let w ← liftP (a.tensor? "weight")
      binaryAurocCheck i t w nt          -- (the class passes `ones_like(input)` when weight is None)
      let wr := match w with | some w => w.rows | none => i.rows.map onesLike
      pure ((recordsOf (i.rows ++ t.rows ++ wr) (lastDim i)).map (splitRec3 nt)))
    (fun vs =>
      if nt == 1 then
        match vs with
        | [v] => pure (showScalarX (.val v))
        | _ => throw .other
      else pure (showVecX (vs.map XQ.val)))

def packBinaryAuprc (cfg : Args) : Except String Pack :=
  withNat? cfg "num_tasks" fun nt0 =>
  let nt := nt0.getD 1
  .ok <| packOf (Fams.binaryAuprcC nt).cls
    (fun a => do
      let (i, t) ← iot a
      binaryAuprcCheck i t nt
      pure ((recordsOf (i.rows ++ t.rows) (lastDim i)).map (splitRec2 nt)))
    (fun vs =>
      if nt == 1 then
        match vs with
        | [v] => pure (showScalarX v)
        | _ => throw .other
      else pure (showVecX vs))

def packMulticlassAuroc (cfg : Args) : Except String Pack :=
  withNat cfg "num_classes" fun nc =>
  match curveAvg cfg with
  | none => .ok rejectPack                    -- constructor `_multiclass_auroc_param_check`
  | some avg =>
  if nc < 2 then .ok rejectPack else
  .ok <| packOf (Fams.multiclassAurocC nc avg).cls
    (fun a => do
      let (i, t) ← iot a
      multiclassCheck i t (some nc)
      pure (i.rows, t.data))
    (fun r => pure (showAvg avg r))

def packMulticlassAuprc (cfg : Args) : Except String Pack :=
  withNat cfg "num_classes" fun nc =>
  match curveAvg cfg with
  | none => .ok rejectPack
  | some avg =>
  if nc < 2 then .ok rejectPack else
  .ok <| packOf (Fams.multiclassAuprcC nc avg).cls
    (fun a => do
      let (i, t) ← iot a
      multiclassCheck i t (some nc)
      pure (i.rows, t.data))
    (fun r => pure (showAvg avg r))

def packMultilabelAuprc (cfg : Args) : Except String Pack :=
  withNat cfg "num_labels" fun nl =>
  match curveAvg cfg with
  | none => .ok rejectPack
  | some avg =>
  if nl < 2 then .ok rejectPack else
  .ok <| packOf (Fams.multilabelAuprcC nl avg).cls
    (fun a => do
      let (i, t) ← iot a
      multilabelCheck i t nl
      pure (i.rows, t.rows))
    (fun r => pure (showAvg avg r))

def packBinaryPrCurve (_cfg : Args) : Except String Pack :=
  .ok <| packOf Fams.binaryPrCurveC.cls
    (fun a => do
      let (i, t) ← iot a
      binaryPrCheck i t
      pure (i.data, t.data))
    (fun c => pure (showPRCs [c]))

def packMulticlassPrCurve (cfg : Args) : Except String Pack :=
  withNat? cfg "num_classes" fun nc0 =>
  .ok <| packOf (Fams.multiclassPrCurveC nc0).cls
    (fun a => do
      let (i, t) ← iot a
      multiclassCheck i t nc0
      pure (i.rows, t.data))
    (fun cs => pure (showPRCs cs))

def packMultilabelPrCurve (cfg : Args) : Except String Pack :=
  withNat cfg "num_labels" fun nl =>
  .ok <| packOf (Fams.multilabelPrCurveC nl).cls
    (fun a => do
      let (i, t) ← iot a
      multilabelCheck i t nl
      pure (i.rows, t.rows))
    (fun cs => pure (showPRCs cs))

def packBinaryRecallAtPrecision (cfg : Args) : Except String Pack :=
  withRat cfg "min_precision" fun p =>
  .ok <| packOf (Fams.binaryRecallAtPrecisionC p).cls
    (fun a => do
      let (i, t) ← iot a
      binaryPrCheck i t
      minPrecisionCheck p
      pure (i.data, t.data))
    (fun r => pure (showPairs [r]))

def packMultilabelRecallAtPrecision (cfg : Args) : Except String Pack :=
  withRat cfg "min_precision" fun p =>
  withNat cfg "num_labels" fun nl =>
  .ok <| packOf (Fams.multilabelRecallAtPrecisionC p nl).cls
    (fun a => do
      let (i, t) ← iot a
      multilabelCheck i t nl
      minPrecisionCheck p
      pure (i.rows, t.rows))
    (fun rs => pure (showPairs rs))

/-- (functional name, class name, configured family) — none: the curve classes are cache-all, see `curvePacks`. -/
def curveFams : List (String × String × (Args → Except String Fam)) := []

/-- (class name, packaged class model) — cache-all classes (`Fams.CFam.cls`, TE/Model/FamsCache.lean). -/
def curvePacks : List (String × (Args → Except String Pack)) := [
  ("BinaryAUROC", packBinaryAuroc),
  ("MulticlassAUROC", packMulticlassAuroc),
  ("BinaryAUPRC", packBinaryAuprc),
  ("MulticlassAUPRC", packMulticlassAuprc),
  ("MultilabelAUPRC", packMultilabelAuprc),
  ("BinaryPrecisionRecallCurve", packBinaryPrCurve),
  ("MulticlassPrecisionRecallCurve", packMulticlassPrCurve),
  ("MultilabelPrecisionRecallCurve", packMultilabelPrCurve),
  ("BinaryRecallAtFixedPrecision", packBinaryRecallAtPrecision),
  ("MultilabelRecallAtFixedPrecision", packMultilabelRecallAtPrecision)
]

/-- (request name, handler) — the functionals and the `spec.*` oracles. -/
def curveFns : List (String × (Args → Except Err String)) := [
  ("binary_auroc", fnBinaryAuroc),
  ("multiclass_auroc", fnMulticlassAuroc),
  ("binary_auprc", fnBinaryAuprc),
  ("multiclass_auprc", fnMulticlassAuprc),
  ("multilabel_auprc", fnMultilabelAuprc),
  ("binary_precision_recall_curve", fnBinaryPrCurve),
  ("multiclass_precision_recall_curve", fnMulticlassPrCurve),
  ("multilabel_precision_recall_curve", fnMultilabelPrCurve),
  ("binary_recall_at_fixed_precision", fnBinaryRecallAtPrecision),
  ("multilabel_recall_at_fixed_precision", fnMultilabelRecallAtPrecision),
  ("spec.binary_auroc", specBinaryAuroc),
  ("spec.multiclass_auroc", specMulticlassAuroc),
  ("spec.binary_auprc", specBinaryAuprc),
  ("spec.multiclass_auprc", specMulticlassAuprc),
  ("spec.multilabel_auprc", specMultilabelAuprc),
  ("spec.binary_precision_recall_curve", specBinaryPrCurve),
  ("spec.multiclass_precision_recall_curve", specMulticlassPrCurve),
  ("spec.multilabel_precision_recall_curve", specMultilabelPrCurve),
  ("spec.binary_recall_at_fixed_precision", specBinaryRecallAtPrecision),
  ("spec.multilabel_recall_at_fixed_precision", specMultilabelRecallAtPrecision)
]

end TE.Driver
