/-
  TE.Driver.Window — protocol adapters of the Window family (see TE/Driver/Count.lean for the conventions).
  Each windowed class is a `Pack` around `TE.Window.ringImpl` / `aurocImpl`; the adapters
  unpack tensors, perform the shape checks of the functional `_update`s, and render what
  `compute()` returns: `(lifetime, windowed)` when lifetime is enabled, else `windowed`;
  empty tensors before the first update.
  `spec.<Class>` packs run the trivially correct queue of TE/Spec/Window.lean instead
  (state = every statistic/sample seen so far).
-/
import TE.Driver.Fam
import TE.Model.Window
import TE.Spec.Window
namespace TE.Driver
open TE TE.Window

structure WCfg where
  tasks : Nat
  cap : Nat
  lifetime : Bool

def parseWCfg (cfg : Args) (capKey : String) : Except String WCfg := do
  let tasks := (← cfg.nat? "num_tasks").getD 1
  let cap := (← cfg.nat? capKey).getD 100
  if tasks < 1 then throw "num_tasks < 1 (constructor raises ValueError)"
  if cap < 1 then throw s!"{capKey} < 1 (constructor raises ValueError)"
  pure { tasks, cap, lifetime := cfg.bool "enable_lifetime" true }

/-- rows of a `(T, n)` tensor (a 1-D tensor is one row). -/
def taskRows (x : T) : List (List Q) := if x.ndim = 2 then x.rows else [x.data]

/-- the `num_tasks` shape rule shared by CTR / calibration / NE / AUROC checks. -/
def taskShapeOk (tasks : Nat) (x : T) : Bool :=
  if tasks = 1 then x.ndim ≤ 1 else x.ndim ≥ 2 && x.shape.head? == some tasks

/-- optional weight argument: tensor, numeric literal or absent (`dflt`). -/
inductive WArg where | tensor (x : T) | scalar (q : Q)

def weightArg (a : Args) (k : String) : Except String WArg :=
  match a.get? k with
  | some (.t x) => .ok (.tensor x)
  | some (.s "none") => .ok (.scalar 1)
  | some (.s s) => do pure (.scalar (← parseQ s))
  | none => .ok (.scalar 1)
  | _ => .error s!"bad weight arg '{k}'"

def constRows (like : List (List Q)) (q : Q) : List (List Q) := like.map fun r => r.map fun _ => q

def vecOut (T : Nat) (f : Nat → XQ) : String := showVecX ((List.range T).map f)

def tupleOut (lifetime : Bool) (life win : String) : String :=
  if lifetime then life ++ " " ++ win else win

def emptyOut (lifetime : Bool) : String := if lifetime then "0: 0:" else "0:"

def ringPack (c : WCfg) (whole : Bool) (stat : Args → Except Err Parts) (value : Parts → String) : Pack :=
  ⟨Ring Parts, ringImpl partsAcc c.cap whole stat
      (fun life win => .ok (tupleOut c.lifetime (value life) (value win))) (emptyOut c.lifetime)⟩

/-- the queue specification as a class model: remembers every statistic. -/
def specPack (c : WCfg) (stat : Args → Except Err Parts) (value : Parts → String) : Pack :=
  ⟨List Parts, {
    init := []
    upd := fun s a => do let x ← stat a; .ok (s ++ [x])
    mrg := fun _ _ => .error .other
    out := fun s => Spec.Window.computeSpec partsAcc c.cap
      (fun life win => .ok (tupleOut c.lifetime (value life) (value win))) (emptyOut c.lifetime) s }⟩

/- ---------- WindowedClickThroughRate ---------- -/

def ctrStatA (tasks : Nat) (a : Args) : Except Err Parts := do
  let i ← liftP (a.tensor "input")
  let w ← liftP (weightArg a "weights")
  if i.ndim != 1 && i.ndim != 2 then throw .value
  match w with
  | .tensor x => if x.shape != i.shape then throw .value
  | _ => pure ()
  if !taskShapeOk tasks i then throw .value
  let rows := taskRows i
  let wr := match w with | .tensor x => taskRows x | .scalar q => constRows rows q
  pure (ctrStat rows wr)

def ctrShow (tasks : Nat) (p : Parts) : String :=
  vecOut tasks fun t => ctrValue ((part p 0 tasks).getD t 0) ((part p 1 tasks).getD t 0)

/- ---------- WindowedWeightedCalibration ---------- -/

def calStatA (tasks : Nat) (a : Args) : Except Err Parts := do
  let i ← liftP (a.tensor "input")
  let t ← liftP (a.tensor "target")
  let w ← liftP (weightArg a "weight")
  if i.shape != t.shape then throw .value
  if !taskShapeOk tasks i then throw .value
  match w with
  | .tensor x => if x.shape != i.shape then throw .value
  | _ => pure ()
  let rows := taskRows i
  let wr := match w with | .tensor x => taskRows x | .scalar q => constRows rows q
  pure (calStat rows (taskRows t) wr)

def calShow (tasks : Nat) (p : Parts) : String :=
  vecOut tasks fun t => calValue ((part p 0 tasks).getD t 0) ((part p 1 tasks).getD t 0)

/- ---------- WindowedBinaryNormalizedEntropy ---------- -/

def neStatA (tasks : Nat) (fromLogits : Bool) (a : Args) : Except Err Parts := do
  let i ← liftP (a.tensor "input")
  let t ← liftP (a.tensor "target")
  let w ← liftP (a.tensor? "weight")
  if i.shape != t.shape then throw .value
  match w with
  | some x => if x.shape != i.shape then throw .value
  | none => pure ()
  if !taskShapeOk tasks i then throw .value
  if i.data.isEmpty then throw .runtime      -- `input.max()` of an empty tensor
  if !fromLogits && i.data.any (fun x => 1 < x || x < 0) then throw .value
  let rows := taskRows i
  let wr := match w with | some x => taskRows x | none => constRows rows 1
  pure (neStat fromLogits rows (taskRows t) wr)

def neShow (tasks : Nat) (p : Parts) : String :=
  vecOut tasks fun t =>
    neValue ((part p 0 tasks).getD t 0) ((part p 1 tasks).getD t 0) ((part p 2 tasks).getD t 0)

/- ---------- WindowedMeanSquaredError ---------- -/

def mseStatA (tasks : Nat) (a : Args) : Except Err Parts := do
  let i ← liftP (a.tensor "input")
  let t ← liftP (a.tensor "target")
  let w ← liftP (a.tensor? "sample_weight")
  if i.ndim ≥ 3 || t.ndim ≥ 3 then throw .value
  if i.shape != t.shape then throw .value
  if i.ndim = 0 then throw .index             -- `target.size(0)` of a 0-dim tensor
  match w with
  | some x => if x.shape.head? != t.shape.head? then throw .value
  | none => pure ()
  if tasks = 1 && i.ndim > 1 then throw .value
  if tasks != 1 && (i.ndim = 1 || i.shape[1]? != some tasks) then throw .value
  let samples (x : T) : List (List Q) := if x.ndim = 2 then x.rows else x.data.map ([·])
  let n := i.shape.headD 0
  let wv := match w with | some x => x.data | none => List.replicate n 1
  pure (mseStat (samples i) (samples t) wv tasks)

def mseShow (tasks : Nat) (raw : Bool) (p : Parts) : String :=
  let w := part0 p 1
  let vals := (List.range tasks).map fun j => mseValue ((part p 0 tasks).getD j 0) w
  if raw then (if tasks = 1 then showScalarX (vals.headD .nan) else showVecX vals)
  else showScalarX (xmean vals)

/- ---------- WindowedBinaryAUROC ---------- -/

def transposeCols (inp tgt wgt : List (List Q)) (n : Nat) : List Col :=
  (List.range n).map fun j =>
    (inp.zip (tgt.zip wgt)).map fun r => (r.1.getD j 0, r.2.1.getD j 0, r.2.2.getD j 0)

def aurocCols (tasks : Nat) (a : Args) : Except Err (List Col) := do
  let i ← liftP (a.tensor "input")
  let t ← liftP (a.tensor "target")
  let w ← liftP (a.tensor? "weight")
  if i.shape != t.shape then throw .value
  match w with
  | some x => if x.shape != t.shape then throw .value
  | none => pure ()
  if !taskShapeOk tasks i then throw .value
  let rows := taskRows i
  let wr := match w with | some x => taskRows x | none => constRows rows 1
  let n := if i.ndim = 2 then i.shape[1]?.getD 0 else i.data.length
  pure (transposeCols rows (taskRows t) wr n)

def aoutShow : AOut → String
  | .scalar v => showScalarX (.val v)
  | .vec v => showVecX (v.map .val)

/-- the sample queue: `binary_auroc` on the last `N` samples (raises on an empty window). -/
def aurocSpecPack (c : WCfg) : Pack :=
  ⟨List Col, {
    init := []
    upd := fun s a => do let x ← aurocCols c.tasks a; .ok (s ++ x)
    mrg := fun _ _ => .error .other
    out := fun s =>
      let w := Spec.Window.lastN c.cap s
      if w.isEmpty then .error .runtime
      else if c.tasks = 1 then .ok (aoutShow (.scalar (pairAuroc (row w 0))))
      else .ok (aoutShow (.vec ((List.range c.tasks).map fun t => pairAuroc (row w t)))) }⟩

/- ---------- tables ---------- -/

/-- (functional name, class name, configured family) — sufficient-statistic / cache-all classes. -/
def windowFams : List (String × String × (Args → Except String Fam)) := []

def withCfg (cfg : Args) (capKey : String) (k : WCfg → Except String Pack) : Except String Pack :=
  match parseWCfg cfg capKey with
  | .error e => .error e
  | .ok c => k c

def mkCtr (spec : Bool) (cfg : Args) : Except String Pack :=
  withCfg cfg "max_num_updates" fun c =>
    .ok ((if spec then specPack c else ringPack c false) (ctrStatA c.tasks) (ctrShow c.tasks))

def mkCal (spec : Bool) (cfg : Args) : Except String Pack :=
  withCfg cfg "max_num_updates" fun c =>
    .ok ((if spec then specPack c else ringPack c false) (calStatA c.tasks) (calShow c.tasks))

def mkNe (spec : Bool) (cfg : Args) : Except String Pack :=
  withCfg cfg "max_num_updates" fun c =>
    let fl := cfg.bool "from_logits" false
    .ok ((if spec then specPack c else ringPack c false) (neStatA c.tasks fl) (neShow c.tasks))

def mkMse (spec : Bool) (cfg : Args) : Except String Pack :=
  withCfg cfg "max_num_updates" fun c =>
    let mo := cfg.strD "multioutput" "uniform_average"
    if mo != "raw_values" && mo != "uniform_average" then .error "bad multioutput (constructor raises ValueError)"
    else .ok ((if spec then specPack c else ringPack c true) (mseStatA c.tasks) (mseShow c.tasks (mo == "raw_values")))

def mkAuroc (spec : Bool) (cfg : Args) : Except String Pack :=
  withCfg cfg "max_num_samples" fun c =>
    .ok (if spec then aurocSpecPack c
         else ⟨SBuf, aurocImpl c.tasks c.cap (aurocCols c.tasks) aoutShow⟩)

/-- (class name, packaged class model) — classes that are not `additive` (own state machine). -/
def windowPacks : List (String × (Args → Except String Pack)) := [
  ("WindowedClickThroughRate", mkCtr false),
  ("WindowedWeightedCalibration", mkCal false),
  ("WindowedBinaryNormalizedEntropy", mkNe false),
  ("WindowedMeanSquaredError", mkMse false),
  ("WindowedBinaryAUROC", mkAuroc false),
  ("spec.WindowedClickThroughRate", mkCtr true),
  ("spec.WindowedWeightedCalibration", mkCal true),
  ("spec.WindowedBinaryNormalizedEntropy", mkNe true),
  ("spec.WindowedMeanSquaredError", mkMse true),
  ("spec.WindowedBinaryAUROC", mkAuroc true)]

/-- (request name, handler) — functionals without a class twin and `spec.*` oracles. -/
def windowFns : List (String × (Args → Except Err String)) := []

end TE.Driver
