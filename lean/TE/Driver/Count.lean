/-
  TE.Driver.Count — protocol adapters for the C04 models: unpack tensors,
  perform the shape checks the real `_input_check`s perform, call the typed model.
-/
import TE.Driver.Proto
import TE.Model.Count
namespace TE.Driver
open TE TE.Count

def parseAvg (s : String) : Except String Avg :=
  match s with
  | "micro" => .ok .micro | "macro" => .ok .macro | "weighted" => .ok .weighted
  | "none" => .ok .none | _ => .error s!"bad average {s}"

def parseCrit (s : String) : Except String Crit :=
  match s with
  | "exact_match" => .ok .exact | "hamming" => .ok .hamming | "overlap" => .ok .overlap
  | "contain" => .ok .contain | "belong" => .ok .belong | _ => .error s!"bad criteria {s}"

def parseNorm (s : String) : Except String Norm :=
  match s with
  | "none" => .ok .none | "all" => .ok .all | "pred" => .ok .pred | "true" => .ok .true_
  | _ => .error s!"bad normalize {s}"

/-- labels as naturals; a negative or fractional label cannot be represented
    by these models (the harness never sends one on this path). -/
def natLabels (d : List Q) : Except String (List Nat) :=
  d.mapM fun q => match qToNat? q with
    | some n => .ok n | none => .error "non-natural label"

/-- result of an `update`-style adapter: either a protocol error (harness bug)
    or a modelled outcome. -/
abbrev RS := Except String (Except Err String)

/-- predictions for the multiclass family: labels (1-D) or arg-max of logits (2-D). -/
def mcPreds (input : T) : Except String (List Nat) :=
  if input.ndim = 2 then .ok (input.rows.map argmaxFirst) else natLabels input.data

/-- `_binary_*_update_input_check` (shape equality + 1-D target). -/
def binaryShapeOk (i t : T) : Bool := i.shape == t.shape && t.ndim == 1

/-- `_accuracy/_precision/_recall/_f1_score_update_input_check` -/
def mcShapeOk (i t : T) (numClasses : Option Nat) : Bool :=
  i.shape.head? == t.shape.head? && t.ndim == 1 && i.ndim ≥ 1 &&
  (i.ndim == 1 || (i.ndim == 2 && (numClasses.isNone || i.shape[1]? == numClasses)))

structure CountState where
  parts : List (List Q)
deriving Repr

def showParts (ps : List (List Q)) : String := " ".intercalate (ps.map showVecQ)

/- ---------- functional entry points ---------- -/

def fnBinaryAccuracy (a : Args) : RS := do
  let i ← a.tensor "input"; let t ← a.tensor "target"; let thr ← a.ratD "threshold" (1/2)
  if !binaryShapeOk i t then return .error .value
  let (c, n) := binaryAccuracyUpdate thr i.data t.data
  return .ok (showScalarX (xdiv c n))

def avgOf (a : Args) : Except String Avg := parseAvg (a.strD "average" "micro")

def fnMulticlassAccuracy (a : Args) : RS := do
  let i ← a.tensor "input"; let t ← a.tensor "target"
  let avg ← avgOf a; let nc ← a.nat? "num_classes"; let k := (← a.nat? "k").getD 1
  if avg == .weighted then return .error .value
  if avg != .micro && (nc.isNone || nc == some 0) then return .error .value
  if k < 1 then return .error .value
  if !(i.shape.head? == t.shape.head? && i.ndim ≥ 1) then return .error .value
  if t.ndim != 1 then return .error .value
  if k > 1 && i.ndim != 2 then return .error .value
  if !(i.ndim == 1 || (i.ndim == 2 && (nc.isNone || i.shape[1]? == nc))) then return .error .value
  let labs ← natLabels t.data
  let mask ← (if k == 1 then do
      let p ← mcPreds i
      pure (mcMaskLabel p labs)
    else pure (mcMaskTopk i.rows labs k))
  -- torch.gather raises for a label outside the logit row
  if k > 1 && !(labs.all (· < (i.shape[1]?.getD 0))) then return .error .runtime
  match mcAccFromMask mask labs avg (nc.getD 0) with
  | .error e => return .error e
  | .ok (c, n) =>
    let r := accuracyCompute c n avg
    return .ok (if avg == .none then showVecX r else showScalarX (r.headD .nan))

def fnMultilabelAccuracy (a : Args) : RS := do
  let i ← a.tensor "input"; let t ← a.tensor "target"; let thr ← a.ratD "threshold" (1/2)
  let crit ← parseCrit (a.strD "criteria" "exact_match")
  if i.shape != t.shape || i.ndim != 2 then return .error .value
  let (c, n) := multilabelAccuracyUpdate thr crit i.rows t.rows
  return .ok (showScalarX (xdiv c n))

def fnTopkMultilabelAccuracy (a : Args) : RS := do
  let i ← a.tensor "input"; let t ← a.tensor "target"
  let crit ← parseCrit (a.strD "criteria" "exact_match"); let k := (← a.nat? "k").getD 2
  if k ≤ 1 then return .error .value
  if i.shape != t.shape || i.ndim != 2 then return .error .value
  if k > i.shape[1]?.getD 0 then return .error .runtime
  let (c, n) := topkMultilabelUpdate crit k i.rows t.rows
  return .ok (showScalarX (xdiv c n))

def fnBinaryPrecision (a : Args) : RS := do
  let i ← a.tensor "input"; let t ← a.tensor "target"; let thr ← a.ratD "threshold" (1/2)
  if !binaryShapeOk i t then return .error .value
  let (tp, fp) := binaryPrecisionUpdate thr i.data t.data
  return .ok (showScalarX (.val (divNan0 tp (tp + fp))))

def fnBinaryRecall (a : Args) : RS := do
  let i ← a.tensor "input"; let t ← a.tensor "target"; let thr ← a.ratD "threshold" (1/2)
  if !binaryShapeOk i t then return .error .value
  let ys ← natLabels t.data
  let (tp, n) := binaryRecallUpdate thr i.data ys
  return .ok (showScalarX (.val (divNan0 tp n)))

def fnBinaryF1 (a : Args) : RS := do
  let i ← a.tensor "input"; let t ← a.tensor "target"; let thr ← a.ratD "threshold" (1/2)
  if !(i.ndim == 1 && t.ndim == 1 && i.shape == t.shape) then return .error .value
  let (tp, lab, prd) := binaryF1Update thr i.data t.data
  return .ok (showScalarX (.val (f1One tp lab prd)))

inductive PRFKind where | precision | recall | f1
deriving DecidableEq

def prfUpdate (kind : PRFKind) (p l : List Nat) (avg : Avg) (nc : Nat) : Except Err PRF :=
  match kind with
  | .precision => precisionUpdate p l avg nc
  | _ => recallUpdate p l avg nc

def prfCompute (kind : PRFKind) (s : PRF) (avg : Avg) : List XQ :=
  match kind with
  | .precision => precisionCompute s avg
  | .recall => recallCompute s avg
  | .f1 => f1Compute s avg

def fnMulticlassPRF (kind : PRFKind) (a : Args) : RS := do
  let i ← a.tensor "input"; let t ← a.tensor "target"
  let avg ← avgOf a; let nc ← a.nat? "num_classes"
  if avg != .micro && (nc.isNone || nc == some 0) then return .error .value
  if !mcShapeOk i t nc then return .error .value
  let labs ← natLabels t.data
  let p ← mcPreds i
  match prfUpdate kind p labs avg (nc.getD 0) with
  | .error e => return .error e
  | .ok s =>
    let r := prfCompute kind s avg
    return .ok (if avg == .none then showVecX r else showScalarX (r.headD .nan))

def fnBinaryConfusion (a : Args) : RS := do
  let i ← a.tensor "input"; let t ← a.tensor "target"; let thr ← a.ratD "threshold" (1/2)
  let norm ← parseNorm (a.strD "normalize" "none")
  if !(i.ndim == 1 && t.ndim == 1 && i.shape == t.shape) then return .error .value
  let labs ← natLabels t.data
  match confusionUpdate (i.data.map (thresh thr)) labs 2 with
  | .error e => return .error e
  | .ok m => return .ok (showMatX (confusionCompute m 2 norm) 2)

def fnMulticlassConfusion (a : Args) : RS := do
  let i ← a.tensor "input"; let t ← a.tensor "target"; let nc ← a.nat "num_classes"
  let norm ← parseNorm (a.strD "normalize" "none")
  if nc < 2 then return .error .value
  if !(i.shape.head? == t.shape.head? && i.ndim ≥ 1) then return .error .value
  if t.ndim != 1 then return .error .value
  if !(i.ndim == 1 || (i.ndim == 2 && i.shape[1]? == some nc)) then return .error .value
  let labs ← natLabels t.data
  let p ← mcPreds i
  -- value checks of `_confusion_matrix_update_input_check` (upper bound only)
  if i.ndim == 1 && !(p.all (· < nc)) then return .error .value
  if !(labs.all (· < nc)) then return .error .value
  match confusionUpdate p labs nc with
  | .error e => return .error e
  | .ok m => return .ok (showMatX (confusionCompute m nc norm) nc)

def countFns : List (String × (Args → RS)) := [
  ("binary_accuracy", fnBinaryAccuracy),
  ("multiclass_accuracy", fnMulticlassAccuracy),
  ("multilabel_accuracy", fnMultilabelAccuracy),
  ("topk_multilabel_accuracy", fnTopkMultilabelAccuracy),
  ("binary_precision", fnBinaryPrecision),
  ("binary_recall", fnBinaryRecall),
  ("binary_f1_score", fnBinaryF1),
  ("multiclass_precision", fnMulticlassPRF .precision),
  ("multiclass_recall", fnMulticlassPRF .recall),
  ("multiclass_f1_score", fnMulticlassPRF .f1),
  ("binary_confusion_matrix", fnBinaryConfusion),
  ("multiclass_confusion_matrix", fnMulticlassConfusion)
]

end TE.Driver
