/-
  TE.Driver.Count — protocol adapters for the C04 models: unpack tensors,
  perform the shape checks the real `_input_check`s perform, call the typed model.
-/
import TE.Driver.Fam
import TE.Model.Count
import TE.Model.Fams
namespace TE.Driver
open TE TE.Count

def parseAvg (s : String) : Except String Avg :=
  match s with
  | "micro" => .ok .micro | "macro" => .ok .macro | "weighted" => .ok .weighted
  | "none" => .ok .none
  | "None" => .ok .none      -- the string "None": accepted by `_precision_param_check` only (see `avgStringOk`)
  | _ => .error s!"bad average {s}"

def parseCrit (s : String) : Except String Crit :=
  match s with
  | "exact_match" => .ok .exact | "hamming" => .ok .hamming | "overlap" => .ok .overlap
  | "contain" => .ok .contain | "belong" => .ok .belong | _ => .error s!"bad criteria {s}"

def parseNorm (s : String) : Except String Norm :=
  match s with
  | "none" => .ok .none | "all" => .ok .all | "pred" => .ok .pred | "true" => .ok .true_
  | _ => .error s!"bad normalize {s}"

/-- labels as naturals; a negative or fractional label cannot be represented
    by these models (the harness never sends one on this path). -/
def natLabels (d : List Q) : Except String (List Nat) :=
  d.mapM fun q => match qToNat? q with
    | some n => .ok n | none => .error "non-natural label"

/-- `torch.argmax(input, dim=1)` on a 2-D tensor without columns raises `IndexError` ("Expected reduction dim 1 to
    have non-zero size"); inside the TorchScript-compiled F1 update it surfaces as `RuntimeError`. -/
def argmaxGuard (input : T) (e : Err) : Except Err Unit :=
  if input.ndim == 2 && input.shape[1]? == some 0 then throw e else pure ()

/-- predictions for the multiclass family: labels (1-D) or arg-max of logits (2-D). -/
def mcPreds (input : T) : Except String (List Nat) :=
  if input.ndim = 2 then .ok (input.rows.map argmaxFirst) else natLabels input.data

/-- `_binary_*_update_input_check` (shape equality + 1-D target). -/
def binaryShapeOk (i t : T) : Bool := i.shape == t.shape && t.ndim == 1

/-- `_accuracy/_precision/_recall/_f1_score_update_input_check` -/
def mcShapeOk (i t : T) (numClasses : Option Nat) : Bool :=
  i.shape.head? == t.shape.head? && t.ndim == 1 && i.ndim ≥ 1 &&
  (i.ndim == 1 || (i.ndim == 2 && (numClasses.isNone || i.shape[1]? == numClasses)))

def avgOf (a : Args) : Except String Avg := parseAvg (a.strD "average" "micro")

/-- the protocol cannot tell Python's `None` from the string "none" (both print `none`); the capitalised string
    "None" is in the `average_options` of `multiclass_precision` only, every other parameter check raises ValueError. -/
def avgStringOk (a : Args) (acceptsCapitalNone : Bool) : Bool :=
  a.strD "average" "micro" != "None" || acceptsCapitalNone

def io (a : Args) : Except Err (T × T) := liftP do
  let i ← a.tensor "input"; let t ← a.tensor "target"; pure (i, t)

def scalarOut (x : XQ) : Except Err String := .ok (showScalarX x)

/- ---------- accuracy ---------- -/

def famBinaryAccuracy (cfg : Args) : Except String Fam := do
  let thr ← cfg.ratD "threshold" (1/2)
  pure {
    stat := fun a => do
      let (i, t) ← io a
      if !binaryShapeOk i t then throw .value
      Fams.binaryAccuracyStat thr (i.data, t.data)
    outA := fun p => scalarOut (xdiv (part0 p 0) (part0 p 1)) }

def famMulticlassAccuracy (cfg : Args) : Except String Fam := do
  let avg ← avgOf cfg; let nc ← cfg.nat? "num_classes"; let k := (← cfg.nat? "k").getD 1
  let C := nc.getD 0
  let paramOk := !(avg == .weighted) && !(avg != .micro && (nc.isNone || nc == some 0)) && k ≥ 1 && avgStringOk cfg false
  pure {
    stat := fun a => do
      if !paramOk then throw .value
      let (i, t) ← io a
      if !(i.shape.head? == t.shape.head? && i.ndim ≥ 1) then throw .value
      if t.ndim != 1 then throw .value
      if k > 1 && i.ndim != 2 then throw .value
      if !(i.ndim == 1 || (i.ndim == 2 && (nc.isNone || i.shape[1]? == nc))) then throw .value
      let labs ← liftP (natLabels t.data)
      -- typed family (TE/Model/Fams.lean): `k = 1` on predictions, `k > 1` on the logit rows
      -- (torch.gather raises for a label outside the logit row)
      if k == 1 then do
        argmaxGuard i .index
        let p ← liftP (mcPreds i)
        Fams.mcAccuracyStat avg C (p, labs)
      else Fams.mcAccuracyTopkStat avg C k (i.shape[1]?.getD 0) (i.rows, labs)
    outA := fun p =>
      if !paramOk then .error .value else
      let w := if avg == .micro then 1 else C
      let r := accuracyCompute (part p 0 w) (part p 1 w) avg
      .ok (if avg == .none then showVecX r else showScalarX (r.headD .nan)) }

def famMultilabelAccuracy (cfg : Args) : Except String Fam := do
  let thr ← cfg.ratD "threshold" (1/2)
  let crit ← parseCrit (cfg.strD "criteria" "exact_match")
  pure {
    stat := fun a => do
      let (i, t) ← io a
      if i.shape != t.shape || i.ndim != 2 then throw .value
      Fams.multilabelAccuracyStat thr crit (i.rows, t.rows)
    outA := fun p => scalarOut (xdiv (part0 p 0) (part0 p 1)) }

def famTopkMultilabelAccuracy (cfg : Args) : Except String Fam := do
  let crit ← parseCrit (cfg.strD "criteria" "exact_match"); let k := (← cfg.nat? "k").getD 2
  pure {
    stat := fun a => do
      if k ≤ 1 then throw .value
      let (i, t) ← io a
      if i.shape != t.shape || i.ndim != 2 then throw .value
      if k > i.shape[1]?.getD 0 then throw .runtime
      Fams.topkMultilabelStat crit k (i.rows, t.rows)
    outA := fun p => if k ≤ 1 then .error .value else scalarOut (xdiv (part0 p 0) (part0 p 1)) }

/- ---------- precision / recall / F1 ---------- -/

def famBinaryPrecision (cfg : Args) : Except String Fam := do
  let thr ← cfg.ratD "threshold" (1/2)
  pure {
    stat := fun a => do
      let (i, t) ← io a
      if !binaryShapeOk i t then throw .value
      Fams.binaryPrecisionStat thr (i.data, t.data)
    outA := fun p => scalarOut (.val (divNan0 (part0 p 0) (part0 p 0 + part0 p 1))) }

def famBinaryRecall (cfg : Args) : Except String Fam := do
  let thr ← cfg.ratD "threshold" (1/2)
  pure {
    stat := fun a => do
      let (i, t) ← io a
      if !binaryShapeOk i t then throw .value
      let ys ← liftP (natLabels t.data)
      Fams.binaryRecallStat thr (i.data, ys)
    outA := fun p => scalarOut (.val (divNan0 (part0 p 0) (part0 p 1))) }

def famBinaryF1 (cfg : Args) : Except String Fam := do
  let thr ← cfg.ratD "threshold" (1/2)
  pure {
    stat := fun a => do
      let (i, t) ← io a
      if !(i.ndim == 1 && t.ndim == 1 && i.shape == t.shape) then throw .value
      Fams.binaryF1Stat thr (i.data, t.data)
    outA := fun p => scalarOut (.val (f1One (part0 p 0) (part0 p 1) (part0 p 2))) }

inductive PRFKind where | precision | recall | f1
deriving DecidableEq

def prfUpdate (kind : PRFKind) (p l : List Nat) (avg : Avg) (nc : Nat) : Except Err PRF :=
  match kind with
  | .precision => precisionUpdate p l avg nc
  | _ => recallUpdate p l avg nc

def prfCompute (kind : PRFKind) (s : PRF) (avg : Avg) : List XQ :=
  match kind with
  | .precision => precisionCompute s avg
  | .recall => recallCompute s avg
  | .f1 => f1Compute s avg

def famMulticlassPRF (kind : PRFKind) (cfg : Args) : Except String Fam := do
  let avg ← avgOf cfg; let nc ← cfg.nat? "num_classes"
  let C := nc.getD 0
  let paramOk := !(avg != .micro && (nc.isNone || nc == some 0))
    && avgStringOk cfg (match kind with | .precision => true | _ => false)
  pure {
    stat := fun a => do
      if !paramOk then throw .value
      let (i, t) ← io a
      if !mcShapeOk i t nc then throw .value
      let labs ← liftP (natLabels t.data)
      argmaxGuard i (match kind with | .f1 => .runtime | _ => .index)
      let p ← liftP (mcPreds i)
      match kind with
      | .precision => Fams.mcPrecisionStat avg C (p, labs)
      | _ => Fams.mcRecallStat avg C (p, labs)
    outA := fun p =>
      if !paramOk then .error .value else
      let w := if avg == .micro then 1 else C
      let r := prfCompute kind ⟨part p 0 w, part p 1 w, part p 2 w⟩ avg
      .ok (if avg == .none then showVecX r else showScalarX (r.headD .nan)) }

/- ---------- confusion matrices ---------- -/

def matOfPart (v : List Q) (n : Nat) : Mat :=
  (List.range n).map fun r => (v.drop (r * n)).take n

def famBinaryConfusion (cfg : Args) : Except String Fam := do
  let thr ← cfg.ratD "threshold" (1/2)
  let norm ← parseNorm (cfg.strD "normalize" "none")
  pure {
    stat := fun a => do
      let (i, t) ← io a
      if !(i.ndim == 1 && t.ndim == 1 && i.shape == t.shape) then throw .value
      let labs ← liftP (natLabels t.data)
      Fams.binaryConfusionStat thr (i.data, labs)
    outA := fun p => .ok (showMatX (confusionCompute (matOfPart (part p 0 4) 2) 2 norm) 2) }

def famMulticlassConfusion (cfg : Args) : Except String Fam := do
  let nc ← cfg.nat "num_classes"
  let norm ← parseNorm (cfg.strD "normalize" "none")
  pure {
    stat := fun a => do
      if nc < 2 then throw .value
      let (i, t) ← io a
      if !(i.shape.head? == t.shape.head? && i.ndim ≥ 1) then throw .value
      if t.ndim != 1 then throw .value
      if !(i.ndim == 1 || (i.ndim == 2 && i.shape[1]? == some nc)) then throw .value
      let labs ← liftP (natLabels t.data)
      let p ← liftP (mcPreds i)
      -- value checks of `_confusion_matrix_update_input_check` (upper bound only), then `_update`
      Fams.confusionStat nc (i.ndim == 1) true (p, labs)
    outA := fun p =>
      if nc < 2 then .error .value else
      .ok (showMatX (confusionCompute (matOfPart (part p 0 (nc * nc)) nc) nc norm) nc) }

/-- functional name ↦ family; class name ↦ family -/
def countFams : List (String × String × (Args → Except String Fam)) := [
  ("binary_accuracy", "BinaryAccuracy", famBinaryAccuracy),
  ("multiclass_accuracy", "MulticlassAccuracy", famMulticlassAccuracy),
  ("multilabel_accuracy", "MultilabelAccuracy", famMultilabelAccuracy),
  ("topk_multilabel_accuracy", "TopKMultilabelAccuracy", famTopkMultilabelAccuracy),
  ("binary_precision", "BinaryPrecision", famBinaryPrecision),
  ("binary_recall", "BinaryRecall", famBinaryRecall),
  ("binary_f1_score", "BinaryF1Score", famBinaryF1),
  ("multiclass_precision", "MulticlassPrecision", famMulticlassPRF .precision),
  ("multiclass_recall", "MulticlassRecall", famMulticlassPRF .recall),
  ("multiclass_f1_score", "MulticlassF1Score", famMulticlassPRF .f1),
  ("binary_confusion_matrix", "BinaryConfusionMatrix", famBinaryConfusion),
  ("multiclass_confusion_matrix", "MulticlassConfusionMatrix", famMulticlassConfusion)
]

end TE.Driver
