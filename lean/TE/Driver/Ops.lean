/-
  TE.Driver.Ops — `op.<primitive>` requests: the Lean definitions of the torch primitives the models are
  built from (sort, diff mask, cumsum, searchsorted, histc, argmax, topk, scatter, masked scatter, trapz …),
  exposed one by one so that the harness can compare each with the real torch kernel (op-level correspondence,
  harness/opscheck.py).

  Every adapter below only parses the protocol arguments and calls the EXISTING definition of
  TE/Model/*.lean — nothing is re-implemented here.  Families (the harness batches one family per driver call):
    count   TE.Count   (+ TE.Index.scatterAddI)      curve   TE.Curve        binned  TE.Binned
    multi   TE.Multi                                  rank    TE.Rank         agg     TE.Agg
    sync    TE.Sync (padTo / sliceTo / pmax / pmin)   window  TE.Window.place (slice assignment)

  Argument conventions: tensors `SHAPE:DATA`; boolean masks are 0/1 tensors; extended scalars (NaN / ±inf)
  are sent as a value tensor `x` plus a kind tensor `xk` (0 value, 1 nan, 2 +inf, 3 -inf).
-/
import TE.Driver.Fam
import TE.Model.Count
import TE.Model.Curve
import TE.Model.Binned
import TE.Model.Multi
import TE.Model.Rank
import TE.Model.Agg
import TE.Model.Sync
import TE.Model.Index
namespace TE.Driver
open TE

namespace OpsA

/-! ### argument / result helpers (protocol only) -/

def ten (a : Args) (k : String) : Except Err T := liftP (a.tensor k)
def dat (a : Args) (k : String) : Except Err (List Q) := do pure (← ten a k).data
def natA (a : Args) (k : String) : Except Err Nat := liftP (a.nat k)
def intA (a : Args) (k : String) : Except Err Int := liftP (a.int k)
def ratA (a : Args) (k : String) : Except Err Q := liftP (a.rat k)

def toNats (d : List Q) : Except Err (List Nat) :=
  liftP (d.mapM fun q => match qToNat? q with | some n => .ok n | none => .error "not a natural number")
def toInts (d : List Q) : Except Err (List Int) :=
  liftP (d.mapM fun q => match qToInt? q with | some n => .ok n | none => .error "not an integer")
def nats (a : Args) (k : String) : Except Err (List Nat) := do toNats (← dat a k)
def ints (a : Args) (k : String) : Except Err (List Int) := do toInts (← dat a k)
def toBools (d : List Q) : List Bool := d.map (· != 0)
def bools (a : Args) (k : String) : Except Err (List Bool) := do pure (toBools (← dat a k))

/-- rows of a 2-D tensor (`(0, c)` has no rows, `(n, 0)` has `n` empty rows). -/
def rowsOf (x : T) : Except Err (List (List Q)) :=
  match x.shape with
  | [_, _] => .ok x.rows
  | _ => .error .other
def rows (a : Args) (k : String) : Except Err (List (List Q)) := do rowsOf (← ten a k)
def cols2 (x : T) : Nat := x.shape.getD 1 0

def mkXQ (v k : Q) : XQ := if k == 0 then .val v else if k == 1 then .nan else if k == 2 then .pinf else .ninf
/-- extended scalars: values in `k`, kinds in `k ++ "k"`. -/
def xqs (a : Args) (k : String) : Except Err (List XQ) := do
  let v ← dat a k
  let kd ← dat a (k ++ "k")
  if v.length != kd.length then throw .other
  pure (List.zipWith mkXQ v kd)

def outN (l : List Nat) : String := showVecQ (l.map fun (n : Nat) => (n : Q))
def outI (l : List Int) : String := showVecQ (l.map fun (i : Int) => (i : Q))
def outB (l : List Bool) : String := showVecQ (l.map b2q)
def outMatB (m : List (List Bool)) (c : Nat) : String := showMatQ (m.map fun r => r.map b2q) c
def outs (l : List String) : String := " ".intercalate l

/-! ### count (TE/Model/Count.lean, TE/Model/Basic.lean) -/

/-- `torch.where(input < threshold, 0, 1)` -/
def opThresh (a : Args) : Except Err String := do
  let thr ← ratA a "threshold"
  pure (outN ((← dat a "input").map (Count.thresh thr)))

/-- `torch.argmax(input, dim=1)` -/
def opArgmaxFirst (a : Args) : Except Err String := do
  pure (outN ((← rows a "input").map Count.argmaxFirst))

/-- `zeros(n).scatter_(0, idx, vals, reduce="add")`, index as the user passes it (possibly negative). -/
def opScatterAdd (a : Args) : Except Err String := do
  let r ← Index.scatterAddI (← natA a "n") (← ints a "index") (← dat a "src")
  pure (showVecQ r)

/-- `zeros(n).scatter_(0, idx, 1, reduce="add")` -/
def opScatterOnes (a : Args) : Except Err String := do
  let idx ← ints a "index"
  if !(idx.all (Index.inRange (← natA a "n"))) then throw .runtime
  pure (showVecQ (← Count.scatterOnes (← natA a "n") (idx.map Int.toNat)))

/-- `torch.gt(input, gather(input, -1, target[:, None])).sum(-1)` -/
def opRankOf (a : Args) : Except Err String := do
  let rs ← rows a "input"; let t ← nats a "target"
  pure (outN ((rs.zip t).map fun p => Count.rankOf p.1 p.2))

/-- `(rank < k).float()` -/
def opTopkMask (a : Args) : Except Err String := do
  pure (showVecQ (Count.mcMaskTopk (← rows a "input") (← nats a "target") (← natA a "k")))

/-- `zeros(input.size()).scatter_(-1, input.topk(k, dim=-1).indices, 1.0)` -/
def opTopkIndicator (a : Args) : Except Err String := do
  let x ← ten a "input"; let k ← natA a "k"
  pure (showMatQ ((← rowsOf x).map fun r => Count.topkIndicator r k) (cols2 x))

/-- `torch.nan_to_num(a / b)` on counts -/
def opDivNan0 (a : Args) : Except Err String := do
  pure (showVecQ (List.zipWith Count.divNan0 (← dat a "a") (← dat a "b")))

/-- `a / b` (torch division) -/
def opXdiv (a : Args) : Except Err String := do
  pure (showVecX (List.zipWith xdiv (← dat a "a") (← dat a "b")))

/-- `tensor.mean()` -/
def opMeanX (a : Args) : Except Err String := do pure (showScalarX (Count.meanX (← dat a "input")))

/-- `torch.nn.functional.normalize(m, p=1, dim=1)` -/
def opL1Normalize (a : Args) : Except Err String := do
  let x ← ten a "input"
  pure (showMatQ ((← rowsOf x).map Count.l1normalize) (cols2 x))

/-- `m.T` -/
def opTranspose (a : Args) : Except Err String := do
  let x ← ten a "input"
  let r := Count.transpose (← rowsOf x) (cols2 x)
  pure (showMatQ r (x.shape.getD 0 0))

/-- `torch.sparse_coo_tensor(vstack((target, input)), ones_like(target), (C, C)).to_dense()` -/
def opCooDense (a : Args) : Except Err String := do
  let c ← natA a "n"
  pure (showMatQ (← Count.confusionUpdate (← nats a "input") (← nats a "target") c) c)

/-- `torch.where(input < threshold, 0, 1) & target` -/
def opThreshAnd (a : Args) : Except Err String := do
  let thr ← ratA a "threshold"
  let xs ← dat a "input"; let ys ← nats a "target"
  pure (outN ((xs.zip ys).map fun p => Nat.land (Count.thresh thr p.1) p.2))

/-! ### curve (TE/Model/Curve.lean) -/

def pts (a : Args) : Except Err (List Curve.Pt) := do
  let s ← dat a "s"; let x ← dat a "a"; let y ← dat a "b"
  if s.length != x.length || s.length != y.length then throw .other
  pure ((s.zip (x.zip y)).map fun p => ⟨p.1, p.2.1, p.2.2⟩)

/-- `input.sort(descending=True)` + `torch.gather(·, -1, indices)` -/
def opSortDesc (a : Args) : Except Err String := do
  let r := Curve.sortDesc (← pts a)
  pure (outs [showVecQ (r.map (·.s)), showVecQ (r.map (·.a)), showVecQ (r.map (·.b))])

/-- `F.pad(threshold.diff(dim=-1) != 0, [0, 1], value=1.0)` -/
def opDiffMask (a : Args) : Except Err String := do pure (outB (Curve.diffMask (← dat a "input")))

/-- `x.cumsum(-1)` -/
def opCumsum (a : Args) : Except Err String := do pure (showVecQ (Curve.cumsum (← dat a "input")))

/-- `x[mask]` (1-D) -/
def opSelect (a : Args) : Except Err String := do
  pure (showVecQ (Curve.select (← bools a "mask") (← dat a "input")))

/-- `zeros(n).masked_scatter_(len(v) >= arange(n, 0, -1), v)` -/
def opPadLeft (a : Args) : Except Err String := do
  pure (showVecQ (Curve.padLeft (← natA a "n") (← dat a "src")))

/-- `torch.trapz(y, x)` -/
def opTrapz (a : Args) : Except Err String := do
  pure (showScalarX (.val (Curve.trapz (← dat a "y") (← dat a "x"))))

/-- `_riemann_integral(x, y)` -/
def opRiemann (a : Args) : Except Err String := do
  pure (showScalarX (.val (Curve.riemann (← dat a "x") (← dat a "y"))))

/-- `torch.nan_to_num(a / b, 1.0)` -/
def opNanTo1 (a : Args) : Except Err String := do
  pure (showVecX (List.zipWith (fun x y => Curve.nanTo1 (xdiv x y)) (← dat a "a") (← dat a "b")))

/-- `torch.max(v)` -/
def opListMax (a : Args) : Except Err String := do
  pure (showScalarX (.val (← Curve.listMax (← dat a "input"))))

/-- `x.flip(0)` (the models write `List.reverse`) -/
def opFlip (a : Args) : Except Err String := do pure (showVecQ (← dat a "input").reverse)

/-- `tensor.mean()` -/
def opCurveMeanX (a : Args) : Except Err String := do pure (showScalarX (Curve.meanX (← dat a "input")))

/-! ### binned (TE/Model/Binned.lean) -/

/-- `torch.searchsorted(threshold, input, right=True)` -/
def opSearchsortedRight (a : Args) : Except Err String := do
  let t ← dat a "threshold"
  pure (outN ((← dat a "input").map (Binned.searchsortedRight t)))

/-- `torch.searchsorted(threshold, input, right=True) - 1` -/
def opBucket (a : Args) : Except Err String := do
  let t ← dat a "threshold"
  pure (outI ((← dat a "input").map (Binned.bucket t)))

/-- `torch.histc(v, bins=b, min=0, max=b)` -/
def opHistcUnit (a : Args) : Except Err String := do
  pure (showVecQ (Binned.histcUnit (← natA a "bins") (← ints a "input")))

/-- `v.flip(-1).cumsum(-1).flip(-1)` -/
def opSuffixSums (a : Args) : Except Err String := do pure (showVecQ (Binned.suffixSums (← dat a "input")))

/-- `2 * (searchsorted(threshold, input, right=True) - 1) + target` -/
def opBinaryCode (a : Args) : Except Err String := do
  let t ← dat a "threshold"; let xs ← dat a "input"; let ys ← nats a "target"
  pure (outI ((xs.zip ys).map fun p => Binned.binaryCode t p.1 p.2))

/-- multiclass `largest_index`: `2 * (C * bucket + arange(C))`, `[range(n), target] += 1` -/
def opFlatCodeMc (a : Args) : Except Err String := do
  let t ← dat a "threshold"; let x ← ten a "input"; let labs ← nats a "target"
  let c := cols2 x
  let codes := ((← rowsOf x).zip labs).map fun p =>
    (List.range c).map fun j => ((Binned.flatCode c t (Binned.colAt p.1 j) j (if j == p.2 then 1 else 0) : Int) : Q)
  pure (showMatQ codes c)

/-- multilabel `largest_index`: `2 * (L * bucket + arange(L)) + target` -/
def opFlatCodeMl (a : Args) : Except Err String := do
  let t ← dat a "threshold"; let x ← ten a "input"; let tg ← ten a "target"
  let c := cols2 x
  let trs ← (← rowsOf tg).mapM toNats
  let codes := ((← rowsOf x).zip trs).map fun p =>
    (List.range c).map fun j => ((Binned.flatCode c t (Binned.colAt p.1 j) j (Binned.tgtAt p.2 j) : Int) : Q)
  pure (showMatQ codes c)

/-- `hist.reshape((T, S, 2)).transpose(0, 2).flip(-1).cumsum(-1).flip(-1)[r].T` -/
def opMemMat (a : Args) : Except Err String := do
  let s ← natA a "s"
  pure (showMatQ (Binned.memMat (← natA a "t") s (← dat a "hist") (← natA a "r")) s)

/-- `not (torch.diff(threshold) < 0.0).any()` -/
def opSortedB (a : Args) : Except Err String := do pure (outB [Binned.sortedB (← dat a "threshold")])

/-- `not ((threshold < 0.0).any() or (threshold > 1.0).any())` -/
def opInUnitB (a : Args) : Except Err String := do pure (outB [Binned.inUnitB (← dat a "threshold")])

/-- `F.one_hot(target, C)` -/
def opOneHot (a : Args) : Except Err String := do
  let c ← natA a "n"
  pure (showMatQ ((← nats a "target").map (Binned.oneHot c)) c)

/-- `torch.trapz(y, x)` (binned AUROC copy) -/
def opBinnedTrapz (a : Args) : Except Err String := do
  pure (showScalarX (.val (Binned.trapz (← dat a "y") (← dat a "x"))))

/-- `(input >= threshold[:, None]) * target).sum(-1)` and `pred.sum(-1) - that` -/
def opGeCounts (a : Args) : Except Err String := do
  let t ← dat a "threshold"; let xs ← dat a "input"; let ys ← dat a "target"
  pure (outs [showVecQ (t.map fun u => Binned.aurocTp u xs ys), showVecQ (t.map fun u => Binned.aurocFp u xs ys)])

/-- `torch.nan_to_num(tp / (tp + fp), 1.0)` -/
def opBinnedNanTo1 (a : Args) : Except Err String := do
  pure (showVecX (List.zipWith (fun x y => Binned.nanTo1 (xdiv x (x + y))) (← dat a "a") (← dat a "b")))

/-- `m[:, c]` -/
def opColumn (a : Args) : Except Err String := do
  pure (showVecQ (Binned.column (← rows a "input") (← natA a "c")))

/-! ### multi (TE/Model/Multi.lean) -/

def maskRows (a : Args) (k : String) : Except Err (List (List Bool)) := do
  pure ((← rows a k).map toBools)

/-- `x[mask]` (2-D) -/
def opSelectFlat (a : Args) : Except Err String := do
  pure (showVecQ (Multi.selectFlat (← maskRows a "mask") (← rows a "input")))

/-- `mask.sum(-1, keepdim=True) >= torch.arange(mask.size(-1), 0, -1)` -/
def opShiftedMask (a : Args) : Except Err String := do
  let m ← ten a "mask"
  pure (outMatB (Multi.shiftedMasks ((← rowsOf m).map toBools)) (cols2 m))

/-- `torch.zeros_like(x).masked_scatter_(mask, source)` (2-D mask) -/
def opMaskedScatterFlat (a : Args) : Except Err String := do
  let m ← ten a "mask"
  pure (showMatQ (← Multi.maskedScatterFlat ((← rowsOf m).map toBools) (← dat a "src")) (cols2 m))

/-- `t.split(sizes)` -/
def opSplitSizes (a : Args) : Except Err String := do
  pure (outs ((Multi.splitSizes (← nats a "sizes") (← dat a "input")).map showVecQ))

/-- `x.sum(-1)` of a `(t, n)` tensor -/
def opSumLastDim (a : Args) : Except Err String := do
  let x ← ten a "input"
  match x.shape with
  | [t, n] => pure (showVecQ (Multi.sumLastDim t n x.data))
  | _ => throw .other

/-- `x.sum(dim=0)` of an `(n, d)` tensor -/
def opSumDim0 (a : Args) : Except Err String := do
  let x ← ten a "input"
  pure (showVecQ (Multi.sumDim0 (cols2 x) (← rowsOf x)))

/-- `mask.sum(-1)` -/
def opCountTrue (a : Args) : Except Err String := do
  pure (outN ((← maskRows a "mask").map Multi.countTrue))

/-- `torch.arange(n, 0, -1)` -/
def opArangeDown (a : Args) : Except Err String := do pure (outN (Multi.arangeDown (← natA a "n")))

/-- `input[indexes == i]`, `target[indexes == i]` -/
def opQueryRows (a : Args) : Except Err String := do
  let x ← dat a "input"; let t ← dat a "target"
  let r := Multi.queryRows (x.zip t) (← ints a "indexes") (← natA a "i")
  pure (outs [showVecQ (r.map (·.1)), showVecQ (r.map (·.2))])

/-! ### rank (TE/Model/Rank.lean) -/

/-- `torch.gather(input, -1, target.unsqueeze(-1))` -/
def opGather1 (a : Args) : Except Err String := do
  let rs ← rows a "input"; let t ← ints a "target"
  pure (showVecQ (← (rs.zip t).mapM fun p => Rank.gather1 p.1 p.2))

/-- `torch.gt(input, y_score).sum(-1)` after the gather -/
def opRanks (a : Args) : Except Err String := do
  pure (outN (← Rank.ranks (← rows a "input") (← ints a "target")))

def optK (a : Args) : Except Err (Option Nat) := liftP (a.nat? "k")

/-- `t.topk(min(k, n))` with `target.gather(-1, idx)`; `k = none` keeps everything -/
def opTopkPairs (a : Args) : Except Err String := do
  let x ← dat a "input"; let t ← dat a "target"
  let r := Rank.topk (← optK a) (x.zip t)
  pure (outs [showVecQ (r.map (·.1)), showVecQ (r.map (·.2))])

/-- `target.gather(-1, topk idx).sum(-1)` -/
def opNbRelevant (a : Args) : Except Err String := do
  let x ← dat a "input"; let t ← dat a "target"
  pure (showScalarX (.val (Rank.nbRelevant (← optK a) (x.zip t))))

/-- `tensor.nanmean()` -/
def opNanmean (a : Args) : Except Err String := do pure (showScalarX (Rank.nanmean (← xqs a "x")))

/-- `num_collisions` kernel: `(input[:, None] == input).sum(-1) - 1` -/
def opNumCollisions (a : Args) : Except Err String := do pure (outI (Rank.numCollisions (← ints a "input")))

/-- `(input < k).float()` -/
def opFrequencyAtK (a : Args) : Except Err String := do
  pure (showVecQ (← Rank.frequencyAtK (← dat a "input") (← ratA a "k")))

/-! ### agg (TE/Model/Agg.lean) -/

/-- `torch.sort(x, dim=1, stable=True)` + `y.gather(1, x_idx)` -/
def opSortPts (a : Args) : Except Err String := do
  let xs ← dat a "x"; let ys ← dat a "y"
  let s := Agg.argsortStable xs
  pure (outs [showVecQ (s.map (·.1)), outN (s.map (·.2)), showVecQ (Agg.gatherBy s ys)])

/-- `x[torch.argsort(x)]`, `w[torch.argsort(x)]` -/
def opSortWith (a : Args) : Except Err String := do
  let r := Agg.sortWith (← dat a "x") (← dat a "w")
  pure (outs [showVecQ r.1, showVecQ r.2])

/-- `torch.searchsorted(sorted, values, right=True)` -/
def opAggSearchsorted (a : Args) : Except Err String := do
  let s ← dat a "sorted"
  pure (outN ((← dat a "input").map (Agg.searchsortedRight s)))

/-- the CDF lines of `_wasserstein_compute` -/
def opCdf (a : Args) : Except Err String := do
  let w ← liftP (a.tensor? "w")
  pure (showVecQ (Agg.wCdf (← dat a "x") (w.map (·.data)) (← dat a "q")))

/-- `torch.diff(v)` -/
def opDiffs (a : Args) : Except Err String := do pure (showVecQ (Agg.diffs (← dat a "input")))

/-- `torch.cat((torch.Tensor([0]), torch.cumsum(w, dim=0)))` -/
def opCumFrom (a : Args) : Except Err String := do pure (showVecQ (Agg.cumFrom 0 (← dat a "input")))

/-- `torch.sort(v)` values -/
def opIsort (a : Args) : Except Err String := do
  pure (showVecQ (Agg.isort (fun x y => decide (x ≤ y)) (← dat a "input")))

/-- `torch.trapz(y, x)` (aggregation AUC copy; model argument order is `x, y`) -/
def opAggTrapz (a : Args) : Except Err String := do
  pure (showScalarX (.val (Agg.trapz (← dat a "x") (← dat a "y"))))

/-- `torch.clamp(x, min=lo, max=hi)` -/
def opClamp (a : Args) : Except Err String := do
  let lo ← ratA a "lo"; let hi ← ratA a "hi"
  pure (showVecQ ((← dat a "input").map (Agg.clampQ lo hi)))

/-- `x.sign()`, `x.abs()` -/
def opSgnAbs (a : Args) : Except Err String := do
  let x ← dat a "input"
  pure (outs [showVecQ (x.map Agg.sgn), showVecQ (x.map Agg.qabs)])

/-- `sse / (sw.abs().clamp(min=eps) * sw.sign())` -/
def opMseRaw (a : Args) : Except Err String := do
  pure (showVecX (Agg.mseRaw (← dat a "sse") (← ratA a "sw")))

/-- `torch.max(x)` / `torch.min(x)` (raise on an empty tensor) -/
def opReduceMaxMin (a : Args) : Except Err String := do
  let x ← dat a "input"
  match Agg.reduceBy Agg.qmax x, Agg.reduceBy Agg.qmin x with
  | some hi, some lo => pure (outs [showScalarX (.val hi), showScalarX (.val lo)])
  | _, _ => throw .runtime

/-- IEEE arithmetic on extended scalars: `a + b`, `a - b`, `a * b`, `a / b` -/
def opXarith (a : Args) : Except Err String := do
  let x ← xqs a "x"; let y ← xqs a "y"
  pure (outs [showVecX (List.zipWith Agg.xadd x y), showVecX (List.zipWith Agg.xsub x y),
              showVecX (List.zipWith Agg.xmul x y), showVecX (List.zipWith Agg.xdivX x y)])

/-- `tensor.mean()` / `tensor.sum()` over extended scalars -/
def opXmean (a : Args) : Except Err String := do
  let x ← xqs a "x"
  pure (outs [showScalarX (Agg.xsum x), showScalarX (Agg.xmean x)])

/-! ### sync (TE/Model/Sync.lean) -/

def shapeArg (a : Args) (k : String) : Except Err (List Nat) := nats a k

/-- `F.pad(tensor, pad_dims)` with `pad_dims` built as in `_send_uneven_tensors` -/
def opPadTo (a : Args) : Except Err String := do
  let x ← ten a "input"; let m ← shapeArg a "to"
  if m.length != x.shape.length then throw .other
  pure (showTQ m (Sync.padTo x.shape m x.data))

/-- `t[[slice(d) for d in size]]` -/
def opSliceTo (a : Args) : Except Err String := do
  let x ← ten a "input"; let s ← shapeArg a "to"
  if s.length != x.shape.length then throw .other
  pure (showTQ s (Sync.sliceTo x.shape s x.data))

/-- `torch.stack(sizes).max(dim=0).values` / `.min(dim=0).values` -/
def opPmaxPmin (a : Args) : Except Err String := do
  let ss ← (← rows a "sizes").mapM toNats
  pure (outs [outN (Sync.pmax ss), outN (Sync.pmin ss)])

/-! ### window (TE/Model/Window.lean): slice assignment of the sample ring -/

/-- `dst[i : i + len(src)] = src` -/
def opPlace (a : Args) : Except Err String := do
  pure (showVecQ (Window.place (← dat a "dst") (← natA a "i") (← dat a "src")))

end OpsA

open OpsA in
def opsFns : List (String × (Args → Except Err String)) := [
  -- count
  ("op.thresh", opThresh), ("op.argmax_first", opArgmaxFirst), ("op.scatter_add", opScatterAdd),
  ("op.scatter_ones", opScatterOnes), ("op.rank_of", opRankOf), ("op.topk_mask", opTopkMask),
  ("op.topk_indicator", opTopkIndicator), ("op.div_nan0", opDivNan0), ("op.xdiv", opXdiv),
  ("op.mean_x", opMeanX), ("op.l1normalize", opL1Normalize), ("op.transpose", opTranspose),
  ("op.coo_dense", opCooDense), ("op.thresh_and", opThreshAnd),
  -- curve
  ("op.sort_desc", opSortDesc), ("op.diff_mask", opDiffMask), ("op.cumsum", opCumsum), ("op.select", opSelect),
  ("op.pad_left", opPadLeft), ("op.trapz", opTrapz), ("op.riemann", opRiemann), ("op.nan_to_1", opNanTo1),
  ("op.list_max", opListMax), ("op.flip", opFlip), ("op.curve_mean_x", opCurveMeanX),
  -- binned
  ("op.searchsorted_right", opSearchsortedRight), ("op.bucket", opBucket), ("op.histc_unit", opHistcUnit),
  ("op.suffix_sums", opSuffixSums), ("op.binary_code", opBinaryCode), ("op.flat_code_mc", opFlatCodeMc),
  ("op.flat_code_ml", opFlatCodeMl), ("op.mem_mat", opMemMat), ("op.sorted_b", opSortedB),
  ("op.in_unit_b", opInUnitB), ("op.one_hot", opOneHot), ("op.binned_trapz", opBinnedTrapz),
  ("op.ge_counts", opGeCounts), ("op.binned_nan_to_1", opBinnedNanTo1), ("op.column", opColumn),
  -- multi
  ("op.select_flat", opSelectFlat), ("op.shifted_mask", opShiftedMask),
  ("op.masked_scatter_flat", opMaskedScatterFlat), ("op.split_sizes", opSplitSizes),
  ("op.sum_last_dim", opSumLastDim), ("op.sum_dim0", opSumDim0), ("op.count_true", opCountTrue),
  ("op.arange_down", opArangeDown), ("op.query_rows", opQueryRows),
  -- rank
  ("op.gather1", opGather1), ("op.ranks", opRanks), ("op.topk_pairs", opTopkPairs),
  ("op.nb_relevant", opNbRelevant), ("op.nanmean", opNanmean), ("op.num_collisions", opNumCollisions),
  ("op.frequency_at_k", opFrequencyAtK),
  -- agg
  ("op.sort_pts", opSortPts), ("op.sort_with", opSortWith), ("op.agg_searchsorted", opAggSearchsorted),
  ("op.cdf_searchsorted", opCdf), ("op.diffs", opDiffs), ("op.cum_from", opCumFrom), ("op.isort", opIsort),
  ("op.agg_trapz", opAggTrapz), ("op.clamp", opClamp), ("op.sgn_abs", opSgnAbs), ("op.mse_raw", opMseRaw),
  ("op.reduce_max_min", opReduceMaxMin), ("op.xarith", opXarith), ("op.xmean", opXmean),
  -- sync
  ("op.pad_to", opPadTo), ("op.slice_to", opSliceTo), ("op.pmax_pmin", opPmaxPmin),
  -- window
  ("op.place", opPlace)
]

end TE.Driver
