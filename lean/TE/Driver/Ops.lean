/-
  TE.Driver.Ops — `op.<primitive>` requests: the Lean definitions of the torch primitives the models are
  built from (sort, diff mask, cumsum, searchsorted, histc, argmax, topk, scatter, masked scatter, trapz …),
  exposed one by one so that the harness can compare each with the real torch kernel (op-level correspondence).
-/
import TE.Driver.Fam
namespace TE.Driver
open TE

def opsFns : List (String × (Args → Except Err String)) := []

end TE.Driver
