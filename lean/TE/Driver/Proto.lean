/-
  TE.Driver.Proto — line protocol: parsing of arguments and printing of results.
  Not part of any theorem; exercised end-to-end by the correspondence harness.
-/
import TE.Model.Basic
namespace TE

structure T where
  shape : List Nat
  data  : List Q
deriving Repr, Inhabited

inductive Val where
  | t (x : T)
  | s (x : String)
  | l (xs : List T)
deriving Inhabited

abbrev Args := List (String × Val)

def parseQ (s : String) : Except String Q :=
  match s.splitOn "/" with
  | [a] => match a.toInt? with
    | some n => .ok (n : Q)
    | none => .error s!"bad number '{s}'"
  | [a, b] => match a.toInt?, b.toNat? with
    | some n, some d => if d = 0 then .error s!"zero denominator '{s}'" else .ok ((n : Q) / (d : Q))
    | _, _ => .error s!"bad rational '{s}'"
  | _ => .error s!"bad rational '{s}'"

def parseT (s : String) : Except String T :=
  match s.splitOn ":" with
  | [sh, da] => do
    let shape ← (if sh = "" then pure [] else
      (sh.splitOn "x").mapM (fun d => match d.toNat? with
        | some n => pure n | none => throw s!"bad dim '{d}'"))
    let data ← (if da = "" then pure [] else (da.splitOn ",").mapM parseQ)
    if shape.foldl (· * ·) 1 ≠ data.length then throw s!"shape/data mismatch '{s}'"
    pure { shape, data }
  | _ => .error s!"bad tensor '{s}'"

def parseVal (s : String) : Except String Val :=
  if s.startsWith "[" then do
    let inner := (s.drop 1).dropEnd 1 |>.toString
    let parts := if inner = "" then [] else inner.splitOn ";"
    let ts ← parts.mapM parseT
    pure (.l ts)
  else if s.contains ':' then do pure (.t (← parseT s))
  else pure (.s s)

def parseArgs (toks : List String) : Except String Args :=
  toks.filter (· ≠ "") |>.mapM fun tok =>
    match tok.splitOn "=" with
    | [k, v] => do pure (k, ← parseVal v)
    | _ => throw s!"bad arg '{tok}'"

namespace Args
def get? (a : Args) (k : String) : Option Val := (a.find? (·.1 = k)).map (·.2)
def tensor (a : Args) (k : String) : Except String T :=
  match a.get? k with
  | some (.t x) => .ok x
  | _ => .error s!"missing tensor arg '{k}'"
def tensor? (a : Args) (k : String) : Except String (Option T) :=
  match a.get? k with
  | some (.t x) => .ok (some x)
  | none => .ok none
  | some (.s "none") => .ok none
  | _ => .error s!"bad optional tensor arg '{k}'"
def tlist (a : Args) (k : String) : Except String (List T) :=
  match a.get? k with
  | some (.l x) => .ok x
  | _ => .error s!"missing list arg '{k}'"
def str (a : Args) (k : String) : Except String String :=
  match a.get? k with
  | some (.s x) => .ok x
  | _ => .error s!"missing string arg '{k}'"
def strD (a : Args) (k : String) (d : String) : String :=
  match a.get? k with
  | some (.s x) => x
  | _ => d
def nat (a : Args) (k : String) : Except String Nat := do
  let s ← a.str k
  match s.toNat? with | some n => pure n | none => throw s!"arg '{k}' not a nat"
def nat? (a : Args) (k : String) : Except String (Option Nat) :=
  match a.get? k with
  | none => .ok none
  | some (.s "none") => .ok none
  | some (.s s) => match s.toNat? with | some n => .ok (some n) | none => .error s!"arg '{k}' not a nat"
  | _ => .error s!"arg '{k}' not a nat"
def int (a : Args) (k : String) : Except String Int := do
  let s ← a.str k
  match s.toInt? with | some n => pure n | none => throw s!"arg '{k}' not an int"
def rat (a : Args) (k : String) : Except String Q := do parseQ (← a.str k)
def ratD (a : Args) (k : String) (d : Q) : Except String Q :=
  match a.get? k with
  | some (.s x) => parseQ x
  | none => .ok d
  | _ => .error s!"arg '{k}' not a rational"
def bool (a : Args) (k : String) (d : Bool) : Bool :=
  match a.get? k with
  | some (.s "true") => true
  | some (.s "false") => false
  | _ => d
end Args

/-- split a row-major tensor of shape (n, c) into rows. -/
def T.rows (x : T) : List (List Q) :=
  match x.shape with
  | [_, c] => if c = 0 then List.replicate (x.shape.head!) [] else
      let rec go (fuel : Nat) (d : List Q) (acc : List (List Q)) : List (List Q) :=
        match fuel with
        | 0 => acc.reverse
        | f + 1 => if d.isEmpty then acc.reverse else go f (d.drop c) (d.take c :: acc)
      go (x.data.length + 1) x.data []
  | _ => [x.data]

def T.ndim (x : T) : Nat := x.shape.length

/-- natural-number view of integer-valued data (labels). `none` when an entry
    is negative or fractional. -/
def qToNat? (q : Q) : Option Nat :=
  if q.den = 1 ∧ 0 ≤ q.num then some q.num.toNat else none
def qToInt? (q : Q) : Option Int := if q.den = 1 then some q.num else none

def showQ (q : Q) : String :=
  if q.den = 1 then toString q.num else s!"{q.num}/{q.den}"
def showXQ : XQ → String
  | .val q => showQ q | .nan => "nan" | .pinf => "inf" | .ninf => "-inf"
def showShape (sh : List Nat) : String := "x".intercalate (sh.map toString)
def showTQ (sh : List Nat) (d : List Q) : String := showShape sh ++ ":" ++ ",".intercalate (d.map showQ)
def showTX (sh : List Nat) (d : List XQ) : String := showShape sh ++ ":" ++ ",".intercalate (d.map showXQ)
def showScalarX (x : XQ) : String := showTX [] [x]
def showVecX (d : List XQ) : String := showTX [d.length] d
def showVecQ (d : List Q) : String := showTQ [d.length] d
def showMatQ (m : List (List Q)) (cols : Nat) : String := showTQ [m.length, cols] m.flatten
def showMatX (m : List (List XQ)) (cols : Nat) : String := showTX [m.length, cols] m.flatten

def errOut (e : Err) : String := "err " ++ e.tag

end TE
