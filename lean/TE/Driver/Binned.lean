/-
  TE.Driver.Binned — protocol adapters of the Binned family (see TE/Driver/Count.lean for the conventions):
  unpack tensors, perform the parameter / shape checks of the real functionals, call the typed models of
  TE/Model/Binned.lean, render.  `spec.<functional>` requests evaluate the definitions of TE/Spec/Binned.lean.

  Threshold argument: a 1-D tensor (the harness sends the exact float32 values `torch.linspace` produced), or an
  integer literal `n` — expanded here to the exact grid `i/(n-1)` only when that grid is float32-exact
  (`n-1` a power of two, or `n ≤ 2`); any other integer is answered with `bad` (the caller must send the tensor).
-/
import TE.Driver.Fam
import TE.Model.Binned
import TE.Model.Fams
import TE.Model.FamsCache
import TE.Spec.Binned
namespace TE.Driver
open TE TE.Binned

namespace Bn

def natsOf (d : List Q) : Except String (List Nat) :=
  d.mapM fun q => match qToNat? q with
    | some n => .ok n | none => .error "binned models need natural-number targets"

def isPow2 (n : Nat) : Bool := n != 0 && (n &&& (n - 1)) == 0

/-- threshold values of a request / configuration (`dflt` = the functional's default count). -/
def thrOf (a : Args) (dflt : Nat) : Except String (List Q) :=
  let ofInt (n : Nat) : Except String (List Q) :=
    if n = 0 then .ok [] else
    if n ≤ 2 || isPow2 (n - 1) then .ok (linspaceExact n)
    else .error s!"integer threshold {n}: linspace is not float32-exact, send the tensor"
  match a.get? "threshold" with
  | some (.t x) => if x.ndim = 1 then .ok x.data else .error "threshold tensor must be 1-D on the modelled paths"
  | some (.s s) => match s.toNat? with
    | some n => ofInt n
    | none => .error s!"bad threshold '{s}'"
  | none => ofInt dflt
  | _ => .error "bad threshold"

def optOf (a : Args) : Option Opt :=
  match a.strD "optimization" "vectorized" with
  | "vectorized" => some .vectorized | "memory" => some .memory | _ => none

/-- `average` of the AUROC / AUPRC forms: `some true` = macro, `some false` = none/None, `none` = rejected. -/
def avgOf (a : Args) : Option Bool :=
  match a.strD "average" "macro" with
  | "macro" => some true | "none" => some false | _ => none

def io (a : Args) : Except Err (T × T) := liftP do
  let i ← a.tensor "input"; let t ← a.tensor "target"; pure (i, t)

def natRows (x : T) : Except String (List (List Nat)) := x.rows.mapM natsOf

def unflat (v : List Q) (rows cols : Nat) : Mat :=
  (List.range rows).map fun r => (v.drop (r * cols)).take cols

def showCurves (cs : List (List XQ × List XQ)) (t : List Q) : String :=
  " ".intercalate (cs.map (fun c => showVecX c.1) ++ cs.map (fun c => showVecX c.2) ++ [showVecQ t])

/-- `_multiclass_precision_recall_curve_update_input_check` -/
def mcShapeOk (i t : T) (nc : Option Nat) : Bool :=
  i.ndim ≥ 1 && t.ndim ≥ 1 && i.shape.head? == t.shape.head? && t.ndim == 1 &&
  i.ndim == 2 && (nc.isNone || i.shape[1]? == nc)

/-- `_multilabel_precision_recall_curve_update_input_check` -/
def mlShapeOk (i t : T) (nl : Nat) : Bool :=
  i.shape == t.shape && i.ndim == 2 && i.shape[1]? == some nl

/-- sufficient statistics of the multiclass binned curve: three `(T, C)` matrices, flattened. -/
def mcStat (t : List Q) (nc : Option Nat) (opt : Option Opt) (a : Args) : Except Err Parts := do
  let some o := opt | throw .value
  paramCheck t
  let (i, tg) ← io a
  if !mcShapeOk i tg nc then throw .value
  let C := i.shape[1]?.getD 0
  let labs ← liftP (natsOf tg.data)
  -- typed family (TE/Model/Fams.lean): the count matrices of the chosen optimisation, flattened
  Fams.mcBinnedStat t o C (i.rows, labs)

def mlStat (t : List Q) (nl : Option Nat) (opt : Option Opt) (functional : Bool) (a : Args) :
    Except Err Parts := do
  let some o := opt | throw .value
  paramCheck t
  let (i, tg) ← io a
  if functional && i.ndim != 2 then throw .value
  let L := nl.getD (i.shape[1]?.getD 0)
  if !mlShapeOk i tg L then throw .value
  let tgts ← liftP (natRows tg)
  Fams.mlBinnedStat t o L (i.rows, tgts)

def partsOf (m : Mat × Mat × Mat) : Parts := [m.1.flatten, m.2.1.flatten, m.2.2.flatten]

def matsOf (p : Parts) (T S : Nat) : Mat × Mat × Mat :=
  (unflat (part p 0 (T * S)) T S, unflat (part p 1 (T * S)) T S, unflat (part p 2 (T * S)) T S)

/-- per-task `(num_tp, num_fp, num_fn)` of the binary binned AUPRC forms
    (`_binary_binned_auprc_update_input_check` + `_update` per row). -/
def binAuprcBatch (t : List Q) (numTasks : Nat) (a : Args) : Except Err (List (List Q × List Nat)) := do
  if numTasks < 1 then throw .value
  auprcParamCheck t
  let (i, tg) ← io a
  if i.shape != tg.shape then throw .value
  if numTasks == 1 && !(i.ndim == 1 || i.ndim == 2) then throw .value
  if numTasks == 1 && i.ndim == 2 && i.shape.head? != some 1 then throw .value
  if numTasks != 1 && (i.ndim != 2 || i.shape.head? != some numTasks) then throw .value
  let xs := if i.ndim == 1 then [i.data] else i.rows
  let ys ← liftP (if tg.ndim == 1 then (do pure [← natsOf tg.data]) else natRows tg)
  if xs.length < numTasks then throw .index
  pure ((xs.zip ys).take numTasks)

def binAuprcStat (t : List Q) (numTasks : Nat) (a : Args) : Except Err (List (List Q × List Q × List Q)) := do
  (← binAuprcBatch t numTasks a).mapM fun p => binaryUpdate t p.1 p.2

def showAvg (isMacro : Bool) (vals : List Q) : String :=
  if isMacro then showScalarX (meanX vals) else showVecQ vals

/-- columns of a `(num_tasks, n)` pair of tensors (a 1-D tensor is one task): the cache of `BinaryBinnedAUROC`. -/
def taskCols (i tg : T) : List (List Q × List Q) :=
  let xs := if i.ndim == 1 then [i.data] else i.rows
  let ys := if tg.ndim == 1 then [tg.data] else tg.rows
  let n := (xs.headD []).length
  (List.range n).map fun j => (xs.map (·.getD j 0), ys.map (·.getD j 0))

def colsToTasks (numTasks : Nat) (cols : List (List Q × List Q)) : List (List Q × List Q) :=
  (List.range numTasks).map fun k => (cols.map (·.1.getD k 0), cols.map (·.2.getD k 0))

end Bn
open Bn

/- ---------- binned precision-recall curves ---------- -/

def famBinaryBinnedPRC (cfg : Args) : Except String Fam := do
  let t ← thrOf cfg 100
  let T := t.length
  pure {
    stat := fun a => do
      paramCheck t
      let (i, tg) ← io a
      if !(i.ndim == 1 && tg.ndim == 1 && i.shape == tg.shape) then throw .value
      let ys ← liftP (natsOf tg.data)
      Fams.binaryBinnedStat t (i.data, ys)
    outA := fun p => do
      paramCheck t
      let c := curveCompute (part p 0 T) (part p 1 T) (part p 2 T)
      pure (showCurves [c] t) }

def famMulticlassBinnedPRC (cfg : Args) : Except String Fam := do
  let t ← thrOf cfg 100
  let nc ← cfg.nat? "num_classes"
  let opt := optOf cfg
  -- the functional derives `num_classes` from a 2-D input when it is not given
  let C := match nc, cfg.get? "input" with
    | some c, _ => c
    | none, some (.t x) => x.shape[1]?.getD 0
    | _, _ => 0
  pure {
    stat := fun a => mcStat t nc opt a
    outA := fun p => do
      if opt.isNone then throw .value
      paramCheck t
      let (tp, fp, fn) := matsOf p t.length C
      pure (showCurves (curveComputeMat C tp fp fn) t) }

def famMultilabelBinnedPRC (cfg : Args) : Except String Fam := do
  let t ← thrOf cfg 100
  let nl ← cfg.nat? "num_labels"
  let opt := optOf cfg
  let functional := (cfg.get? "input").isSome
  let L := match nl, cfg.get? "input" with
    | some c, _ => c
    | none, some (.t x) => x.shape[1]?.getD 0
    | _, _ => 0
  pure {
    stat := fun a => mlStat t nl opt functional a
    outA := fun p => do
      if opt.isNone then throw .value
      paramCheck t
      let (tp, fp, fn) := matsOf p t.length L
      pure (showCurves (curveComputeMat L tp fp fn) t) }

/- ---------- binned AUPRC (class-shaped output: the value only) ---------- -/

def binAuprcVals (p : Parts) (numTasks T : Nat) : List Q :=
  let (tp, fp, fn) := matsOf p numTasks T
  (List.range numTasks).map fun k => auprcOf (tp.getD k []) (fp.getD k []) (fn.getD k [])

def famBinaryBinnedAUPRC (cfg : Args) : Except String Fam := do
  let t ← thrOf cfg 100
  let numTasks := (← cfg.nat? "num_tasks").getD 1
  pure {
    stat := fun a => do
      let b ← binAuprcBatch t numTasks a
      Fams.binaryBinnedAuprcStat t numTasks b
    outA := fun p => do
      if numTasks < 1 then throw .value
      auprcParamCheck t
      let vals := binAuprcVals p numTasks t.length
      pure (if numTasks == 1 then showTQ [] vals else showVecQ vals) }

def colAuprcs (S : Nat) (m : Mat × Mat × Mat) : List Q :=
  (List.range S).map fun s => auprcOf (column m.1 s) (column m.2.1 s) (column m.2.2 s)

def famMulticlassBinnedAUPRC (cfg : Args) : Except String Fam := do
  let t ← thrOf cfg 100
  let nc ← cfg.nat? "num_classes"
  let opt := optOf cfg
  let avg := avgOf cfg
  let C := match nc, cfg.get? "input" with
    | some c, _ => c
    | none, some (.t x) => x.shape[1]?.getD 0
    | _, _ => 0
  let ok : Except Err Unit := do
    if opt.isNone then throw .value
    if avg.isNone then throw .value
    if C < 2 then throw .value
    auprcParamCheck t
  pure {
    stat := fun a => do
      ok
      mcStat t (some C) opt a
    outA := fun p => do
      ok
      pure (showAvg (avg.getD true) (colAuprcs C (matsOf p t.length C))) }

def famMultilabelBinnedAUPRC (cfg : Args) : Except String Fam := do
  let t ← thrOf cfg 100
  let nl ← cfg.nat? "num_labels"
  let opt := optOf cfg
  let avg := avgOf cfg
  let L := match nl, cfg.get? "input" with
    | some c, _ => c
    | none, some (.t x) => x.shape[1]?.getD 0
    | _, _ => 0
  let ok : Except Err Unit := do
    if opt.isNone then throw .value
    if avg.isNone then throw .value
    if L < 2 then throw .value
    auprcParamCheck t
  pure {
    stat := fun a => do
      ok
      mlStat t (some L) opt false a
    outA := fun p => do
      ok
      pure (showAvg (avg.getD true) (colAuprcs L (matsOf p t.length L))) }

/-- the functionals return `(auprc, threshold)`; a 2-D input with `num_tasks = 1` gives shape `(1,)`. -/
def fnBinaryBinnedAuprc (a : Args) : Except Err String := do
  let t ← liftP (thrOf a 100)
  let numTasks := (← liftP (a.nat? "num_tasks")).getD 1
  let rows ← binAuprcStat t numTasks a
  let vals := rows.map fun r => auprcOf r.1 r.2.1 r.2.2
  let (i, _) ← io a
  pure ((if numTasks == 1 && i.ndim == 1 then showTQ [] vals else showVecQ vals) ++ " " ++ showVecQ t)

def withThr (mk : Args → Except String Fam) (a : Args) : Except Err String := do
  let f ← liftP (mk a)
  let t ← liftP (thrOf a 100)
  let s ← f.fn a
  pure (s ++ " " ++ showVecQ t)

/- ---------- binned AUROC (cache-all classes) ---------- -/

structure AurocCfg where
  t : List Q
  numTasks : Nat

def binAurocStat (c : AurocCfg) (a : Args) : Except Err (List (List Q × List Q)) := do
  if c.numTasks < 1 then throw .value
  paramCheck c.t
  let (i, tg) ← io a
  if i.shape != tg.shape then throw .value
  if i.ndim > 2 then throw .value
  if c.numTasks == 1 && i.ndim > 1 then throw .value
  if c.numTasks != 1 && (i.ndim == 1 || i.shape.head? != some c.numTasks) then throw .value
  if i.ndim == 0 then throw .other
  pure (taskCols i tg)

def binAurocOut (c : AurocCfg) (cols : List (List Q × List Q)) : Except Err String := do
  if c.numTasks < 1 then throw .value
  paramCheck c.t
  -- torch.cat of an empty list of cached tensors
  if cols.isEmpty then throw .runtime
  pure (showVecQ (binaryBinnedAuroc c.t (colsToTasks c.numTasks cols)) ++ " " ++ showVecQ c.t)

def aurocCfgOf (cfg : Args) : Except String AurocCfg := do
  pure { t := ← thrOf cfg 200, numTasks := (← cfg.nat? "num_tasks").getD 1 }

/-- runs the typed cache-all class `Fams.binaryBinnedAurocL` (TE/Model/FamsCache.lean); the parameter
    checks of the constructor precede everything. -/
def packBinaryBinnedAUROC (cfg : Args) : Except String Pack :=
  match aurocCfgOf cfg with
  | .ok c =>
    let m := (Fams.binaryBinnedAurocL c.t c.numTasks).cls
    .ok ⟨List Fams.TaskPair, {
      init := m.init
      upd := fun s a => do let cols ← binAurocStat c a; m.upd s cols
      mrg := m.mrg
      out := fun s => do
        if c.numTasks < 1 then throw .value
        paramCheck c.t
        let v ← m.out s
        pure (showVecQ v ++ " " ++ showVecQ c.t) }⟩
  | .error m => .error m

/-- the functional: an empty batch is fine (`0.5`), there is no `torch.cat`. -/
def fnBinaryBinnedAuroc (a : Args) : Except Err String := do
  let c ← liftP (aurocCfgOf a)
  let cols ← binAurocStat c a
  pure (showVecQ (binaryBinnedAuroc c.t (colsToTasks c.numTasks cols)) ++ " " ++ showVecQ c.t)

structure McAurocCfg where
  t : List Q
  C : Nat
  avg : Option Bool

def mcAurocParamOk (c : McAurocCfg) : Except Err Unit := do
  if c.avg.isNone then throw .value
  if c.C < 2 then throw .value
  paramCheck c.t

def mcAurocStat (c : McAurocCfg) (a : Args) : Except Err (List (List Q × Nat)) := do
  mcAurocParamOk c
  let (i, tg) ← io a
  if !mcShapeOk i tg (some c.C) then throw .value
  let labs ← liftP (natsOf tg.data)
  Fams.rowSamples (i.rows, labs)

def mcAurocOut (c : McAurocCfg) (needData : Bool) (s : List (List Q × Nat)) : Except Err String := do
  mcAurocParamOk c
  if needData && s.isEmpty then throw .runtime
  -- F.one_hot(target, num_classes)
  if !(s.all fun p => p.2 < c.C) then throw .runtime
  let vals := mcBinnedAuroc c.t c.C (s.map (·.1)) (s.map (·.2))
  pure (showAvg (c.avg.getD true) vals ++ " " ++ showVecQ c.t)

def mcAurocCfgOf (cfg : Args) : Except String McAurocCfg := do
  pure { t := ← thrOf cfg 200, C := ← cfg.nat "num_classes", avg := avgOf cfg }

/-- the batch of `MulticlassBinnedAUROC.update` after the shape checks: logit rows and labels. -/
def mcAurocBatch (c : McAurocCfg) (a : Args) : Except Err (Mat × List Nat) := do
  mcAurocParamOk c
  let (i, tg) ← io a
  if !mcShapeOk i tg (some c.C) then throw .value
  let labs ← liftP (natsOf tg.data)
  pure (i.rows, labs)

/-- runs the typed cache-all class `Fams.mcBinnedAurocL` (TE/Model/FamsCache.lean). -/
def packMulticlassBinnedAUROC (cfg : Args) : Except String Pack :=
  match mcAurocCfgOf cfg with
  | .ok c =>
    let m := (Fams.mcBinnedAurocL c.t c.C).cls
    .ok ⟨List (List Q × Nat), {
      init := m.init
      upd := fun s a => do let b ← mcAurocBatch c a; m.upd s b
      mrg := m.mrg
      out := fun s => do
        mcAurocParamOk c
        let vals ← m.out s
        pure (showAvg (c.avg.getD true) vals ++ " " ++ showVecQ c.t) }⟩
  | .error m => .error m

def fnMulticlassBinnedAuroc (a : Args) : Except Err String := do
  let c ← liftP (mcAurocCfgOf a)
  mcAurocStat c a >>= mcAurocOut c false

/- ---------- spec oracles ---------- -/

namespace BnSpec
open TE.Spec.Binned

def curveOut (ss : List Samples) (t : List Q) : String :=
  showCurves (ss.map fun s => curve s t) t

/-- samples with their scores rounded down to the threshold grid (`none`: a score below every threshold —
    outside the statement). -/
def floored (t : List Q) (s : Samples) : Option Samples :=
  s.mapM fun p => (floorTo? t p.1).map fun v => (v, p.2)

def binSamples (a : Args) : Except Err (List Samples) := do
  let (i, tg) ← io a
  let xs := if i.ndim == 1 then [i.data] else i.rows
  let ys ← liftP (if tg.ndim == 1 then (do pure [← natsOf tg.data]) else natRows tg)
  pure ((xs.zip ys).map fun p => p.1.zip p.2)

def mcSamples (a : Args) : Except Err (List Samples) := do
  let (i, tg) ← io a
  let labs ← liftP (natsOf tg.data)
  let C := ((← liftP (a.nat? "num_classes")).getD (i.shape[1]?.getD 0))
  pure ((List.range C).map fun c => ovr i.rows labs c)

def mlSamples (a : Args) : Except Err (List Samples) := do
  let (i, tg) ← io a
  let tgts ← liftP (natRows tg)
  let L := ((← liftP (a.nat? "num_labels")).getD (i.shape[1]?.getD 0))
  pure ((List.range L).map fun l => labelCol i.rows tgts l)

def flooredAll (t : List Q) (ss : List Samples) : Except Err (List Samples) :=
  match ss.mapM (floored t) with
  | some r => .ok r
  | none => .error .other

def specCurve (get : Args → Except Err (List Samples)) (a : Args) : Except Err String := do
  let t ← liftP (thrOf a 100)
  pure (curveOut (← get a) t)

def specArea (f : Samples → Q) (get : Args → Except Err (List Samples)) (vec : Bool) (a : Args) :
    Except Err String := do
  let t ← liftP (thrOf a 100)
  let ss ← flooredAll t (← get a)
  let vals := ss.map f
  let some isMacro := avgOf a | throw .value
  pure ((if vec then showVecQ vals else showAvg isMacro vals) ++ " " ++ showVecQ t)

end BnSpec
open BnSpec TE.Spec.Binned

/-- (functional name, class name, configured family) — sufficient-statistic classes.
    The AUPRC classes return the value only whereas their functionals return `(value, threshold)`: the family is
    registered under `first.<functional>` and the functional itself in `binnedFns`. -/
def binnedFams : List (String × String × (Args → Except String Fam)) := [
  ("binary_binned_precision_recall_curve", "BinaryBinnedPrecisionRecallCurve", famBinaryBinnedPRC),
  ("multiclass_binned_precision_recall_curve", "MulticlassBinnedPrecisionRecallCurve", famMulticlassBinnedPRC),
  ("multilabel_binned_precision_recall_curve", "MultilabelBinnedPrecisionRecallCurve", famMultilabelBinnedPRC),
  ("first.binary_binned_auprc", "BinaryBinnedAUPRC", famBinaryBinnedAUPRC),
  ("first.multiclass_binned_auprc", "MulticlassBinnedAUPRC", famMulticlassBinnedAUPRC),
  ("first.multilabel_binned_auprc", "MultilabelBinnedAUPRC", famMultilabelBinnedAUPRC)
]

/-- (class name, packaged class model) — cache-all classes (`additive (listAcc _)`). -/
def binnedPacks : List (String × (Args → Except String Pack)) := [
  ("BinaryBinnedAUROC", packBinaryBinnedAUROC),
  ("MulticlassBinnedAUROC", packMulticlassBinnedAUROC)
]

/-- (request name, handler) — functionals without a `Fam` twin and `spec.*` oracles. -/
def binnedFns : List (String × (Args → Except Err String)) := [
  ("binary_binned_auroc", fnBinaryBinnedAuroc),
  ("multiclass_binned_auroc", fnMulticlassBinnedAuroc),
  ("binary_binned_auprc", fnBinaryBinnedAuprc),
  ("multiclass_binned_auprc", withThr famMulticlassBinnedAUPRC),
  ("multilabel_binned_auprc", withThr famMultilabelBinnedAUPRC),
  ("spec.binary_binned_precision_recall_curve", specCurve binSamples),
  ("spec.multiclass_binned_precision_recall_curve", specCurve mcSamples),
  ("spec.multilabel_binned_precision_recall_curve", specCurve mlSamples),
  ("spec.binary_binned_auroc", specArea aurocSpec binSamples true),
  ("spec.multiclass_binned_auroc", specArea aurocSpec mcSamples false),
  ("spec.binary_binned_auprc", specArea auprcSpec binSamples true),
  ("spec.multiclass_binned_auprc", specArea auprcSpec mcSamples false),
  ("spec.multilabel_binned_auprc", specArea auprcSpec mlSamples false)
]

end TE.Driver
