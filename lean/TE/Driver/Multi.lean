/-
  TE.Driver.Multi — protocol adapters for C16 (see TE/Driver/Count.lean for the conventions).
  Every `multi.<functional>` request evaluates the *vectorised multi-row* model of
  TE/Model/Multi.lean (flat select / flat masked scatter / `split(sizes)` / `sum(-1)` and
  `sum(dim=0)` over the flat data) on the protocol's tensors, with the same shape checks as
  the adapters of the single-slice families, so that the harness can compare the real
  multi-task call with the vectorised model (not with a `map` of single-slice models).
-/
import TE.Driver.Fam
import TE.Driver.Curve
import TE.Driver.Rank
import TE.Driver.Agg
import TE.Model.Multi
namespace TE.Driver
open TE TE.Curve TE.Multi

namespace MultiA

/-- the flat data of a `(t, n)` tensor with its two extents; a 1-D tensor is `(1, n)`. -/
def flat2 (x : T) : Nat × Nat × List Q :=
  match x.shape with
  | [t, n] => (t, n, x.data)
  | _ => (1, x.data.length, x.data)

/-- `binary_auroc(input, target, num_tasks=…, weight=…)` through `binaryAurocMulti`. -/
def fnBinaryAuroc (a : Args) : Except Err String := do
  let (i, t) ← iot a
  let w ← liftP (a.tensor? "weight")
  let nt := (← liftP (a.nat? "num_tasks")).getD 1
  binaryAurocCheck i t w nt
  let wr := match w with | some w => w.rows | none => i.rows.map onesLike
  let vs ← binaryAurocMulti (zip3 i.rows t.rows wr)
  pure (if i.ndim == 1 then showScalarX (.val (vs.headD 0)) else showVecX (vs.map XQ.val))

/-- `multiclass_auroc` through `multiclassAurocMulti`. -/
def fnMulticlassAuroc (a : Args) : Except Err String := do
  let (i, t) ← iot a
  let nc ← liftP (a.nat "num_classes")
  match curveAvg a with
  | none => throw .value
  | some avg =>
    if nc < 2 then throw .value
    multiclassCheck i t (some nc)
    let r ← multiclassAurocMulti (colsOf i.rows nc) t.data avg
    pure (showAvg avg r)

/-- `multiclass_precision_recall_curve` through `multiclassPrCurveMulti`. -/
def fnMulticlassPrCurve (a : Args) : Except Err String := do
  let (i, t) ← iot a
  let nc0 ← liftP (a.nat? "num_classes")
  let nc0 := if nc0.isNone && i.ndim == 2 then i.shape[1]? else nc0
  multiclassCheck i t nc0
  let nc := nc0.getD 0
  let cs ← multiclassPrCurveMulti (colsOf i.rows nc) t.data
  pure (showPRCs cs)

/-- `click_through_rate(input, weights, num_tasks=…)` through `ctrMulti` / `ctrMultiScalar`. -/
def fnCtr (a : Args) : Except Err String := do
  let nt ← liftP (RankA.numTasks a)
  let i ← liftP (a.tensor "input")
  let w ← liftP (RankA.weightOf a "weights")
  if i.ndim != 1 && i.ndim != 2 then throw .value
  if (match w with | .tensor x => x.shape != i.shape | _ => false) then throw .value
  if nt == 1 && i.ndim > 1 then throw .value
  if nt != 1 && (i.ndim == 1 || i.shape.head? != some nt) then throw .value
  let (t, n, d) := flat2 i
  let r := match w with
    | .tensor x => ctrMulti RankA.eps32 t n d x.data
    | .scalar q => ctrMultiScalar RankA.eps32 t n d q
  pure (RankA.renderTasksX (i.ndim == 1) r)

/-- `weighted_calibration(input, target, weight, num_tasks=…)` through `wcMulti` / `wcMultiScalar`. -/
def fnWc (a : Args) : Except Err String := do
  let nt ← liftP (RankA.numTasks a)
  let (i, tg) ← RankA.io a
  let w ← liftP (RankA.weightOf a "weight")
  if i.shape != tg.shape then throw .value
  if nt == 1 && i.ndim > 1 then throw .value
  if nt != 1 && (i.ndim == 1 || i.shape.head? != some nt) then throw .value
  let (t, n, d) := flat2 i
  match w with
  | .scalar q => pure (RankA.renderTasksX (i.ndim == 1) (wcMultiScalar t n d tg.data q))
  | .tensor x =>
    if x.shape != i.shape then throw .value
    pure (RankA.renderTasksX (i.ndim == 1) (wcMulti t n d tg.data x.data))

/-- sample rows of a 1-D (one output) or `(n, d)` tensor. -/
def sampleRows (x : T) : Option (Mat × Nat × Bool) :=
  match x.shape with
  | [_] => some (x.data.map ([·]), 1, false)
  | [_, d] => some (x.rows, d, true)
  | _ => none

/-- `mean_squared_error(input, target, sample_weight=…, multioutput=…)` through `mseMulti`. -/
def fnMse (a : Args) : Except Err String := do
  let mo := a.strD "multioutput" "uniform_average"
  if !(mo == "raw_values" || mo == "uniform_average") then throw .value
  let i ← liftP (a.tensor "input"); let t ← liftP (a.tensor "target")
  let w ← optData a "sample_weight"
  if i.ndim ≥ 3 || t.ndim ≥ 3 then throw .value
  if i.shape != t.shape then throw .value
  match w with
  | some w => if w.shape.head? != t.shape.head? then throw .value
  | none => pure ()
  match sampleRows i, sampleRows t with
  | some (xr, d, two), some (tr, _, _) =>
    let wv ← (match w with
      | none => pure none
      | some w => if w.ndim != 1 then throw .other else pure (some w.data))
    let uniform := mo == "uniform_average"
    let r := mseMulti uniform wv xr tr d
    pure (if two && !uniform then showVecX r else showScalarX (r.headD .nan))
  | _, _ => throw .other

/-- `r2_score(input, target, multioutput=…, num_regressors=…)` through `r2Multi`. -/
def fnR2 (a : Args) : Except Err String := do
  let mo := parseMultiOut (a.strD "multioutput" "uniform_average")
  let p : Int ← liftP (match a.get? "num_regressors" with | none => pure 0 | some _ => a.int "num_regressors")
  match mo with
  | none => throw .value
  | some mo =>
    if p < 0 then throw .value
    let i ← liftP (a.tensor "input"); let t ← liftP (a.tensor "target")
    if i.ndim ≥ 3 || t.ndim ≥ 3 then throw .value
    if i.shape != t.shape then throw .value
    match sampleRows i, sampleRows t with
    | some (xr, d, two), some (tr, _, _) =>
      let r ← r2Multi xr tr d mo p.toNat
      pure (if two && mo == .raw then showVecX r else showScalarX (r.headD .nan))
    | _, _ => throw .other

/-- one `update` of `WeightedCalibration(num_tasks=…)` followed by `compute()`, through `wcClassCompute`. -/
def fnWcClass (a : Args) : Except Err String := do
  let nt ← liftP (RankA.numTasks a)
  let s ← RankA.wcStat nt a
  pure (showVecX (wcClassCompute s))

/-- one `update` of `BinaryNormalizedEntropy(num_tasks=…)` followed by `compute()`, through `bneClassCompute`. -/
def fnBneClass (a : Args) : Except Err String := do
  let nt := (← liftP (a.nat? "num_tasks")).getD 1
  let fl := a.bool "from_logits" false
  let (x, t, w, _) ← bneArgs a nt fl
  pure (showVecX (bneClassCompute lnF (bneRows fl x t w)))

end MultiA

def multiFns : List (String × (Args → Except Err String)) := [
  ("multi.binary_auroc", MultiA.fnBinaryAuroc),
  ("multi.multiclass_auroc", MultiA.fnMulticlassAuroc),
  ("multi.multiclass_precision_recall_curve", MultiA.fnMulticlassPrCurve),
  ("multi.click_through_rate", MultiA.fnCtr),
  ("multi.weighted_calibration", MultiA.fnWc),
  ("multi.mean_squared_error", MultiA.fnMse),
  ("multi.r2_score", MultiA.fnR2),
  ("multi.class.weighted_calibration", MultiA.fnWcClass),
  ("multi.class.binary_normalized_entropy", MultiA.fnBneClass)
]

end TE.Driver
