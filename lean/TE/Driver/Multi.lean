/-
  TE.Driver.Multi — protocol adapters for C16 (see TE/Driver/Count.lean for the conventions).
-/
import TE.Driver.Fam
namespace TE.Driver
open TE

def multiFns : List (String × (Args → Except Err String)) := []

end TE.Driver
