/-
  TE.Driver.Agg — protocol adapters of the C07 models (aggregation, regression,
  statistical, image, entropy): unpack tensors, perform the shape checks the real
  `_input_check`s perform, call the typed model of `TE/Model/Agg.lean`.

  Transcendental end values.  `log`, `exp`, `log10` cannot run on `Rat`.  The models
  take them as parameters `ln exp : Q → Q`; requests whose name ends in `.arg`
  return the exact rational *argument* of the final transcendental function
  (`peak_signal_noise_ratio.arg`, `perplexity.arg` is not rational and hence absent),
  all other PSNR / normalized-entropy / perplexity requests are **evaluated with
  IEEE doubles** (`lnF`, `expF`, `log10F` below: the C library function applied to
  the nearest double, the result converted back to an exact rational).  Those
  end values are approximations (≈1e-15 relative), everything else is exact.
-/
import TE.Driver.Fam
import TE.Model.Agg
import TE.Model.Fams
import TE.Model.FamsCache
import TE.Spec.Agg
namespace TE.Driver
open TE TE.Agg

/-! ### doubles ↔ rationals (only for the transcendental end values) -/

def q2f (q : Q) : Float := Float.ofInt q.num / Float.ofNat q.den

def f2q (x : Float) : Option Q :=
  if x.isNaN || x.isInf then none else
  let (m, e) := x.frExp
  let mant : Int := (m.scaleB 53).toInt64.toInt
  let ex : Int := e - 53
  some (if 0 ≤ ex then ((mant * (2 : Int) ^ ex.toNat : Int) : Q)
        else (mant : Q) / (((2 : Int) ^ (-ex).toNat : Int) : Q))

/-- `log` on doubles; `ln 0 = −inf` is represented by a huge negative number (the only
    consumer, `binary_cross_entropy`, clamps logs at −100). -/
def lnF (q : Q) : Q := if q ≤ 0 then -1000000 else (f2q (Float.log (q2f q))).getD 0
def expF (q : Q) : Q := (f2q (Float.exp (q2f q))).getD 0

/-- `10·log10(arg)` on doubles over an extended argument. -/
def tenLog10F : XQ → XQ
  | .val a =>
    if a = 0 then .ninf else if a < 0 then .nan
    else match f2q (10 * Float.log10 (q2f a)) with | some v => .val v | none => .nan
  | .pinf => .pinf
  | .ninf => .nan
  | .nan => .nan

/-! ### argument helpers -/

def aggWeight (a : Args) (k : String) (input : T) : Except Err Weight :=
  match a.get? k with
  | none => .ok (.scalar 1)
  | some (.s s) => match parseQ s with
    | .ok q => .ok (.scalar q)
    | .error _ => .error .other
  | some (.t w) => if w.shape == input.shape then .ok (.tensor w.data) else .error .value
  | some (.l _) => .error .other

def optData (a : Args) (k : String) : Except Err (Option T) := liftP (a.tensor? k)

/-- 1-D tensor ↦ one column; (n, d) tensor ↦ d columns. `none` for other ranks. -/
def asCols (x : T) : Option (Mat × Nat × Bool) :=
  match x.shape with
  | [n] => some ([x.data], n, false)
  | [n, d] => some (cols d x.rows, n, true)
  | _ => none

/-- rows of a 1-D (one row) or 2-D tensor -/
def asRows (x : T) : Mat := if x.ndim == 1 then [x.data] else x.rows

def showMat (m : Mat) (c : Nat) : String := showMatQ m c

/-! ### Mean / Sum -/

def famMean (_ : Args) : Except String Fam := pure {
  stat := fun a => do
    let i ← liftP (a.tensor "input")
    let w ← aggWeight a "weight" i
    Fams.meanStat (i.data, w)
  outA := fun p => .ok (showScalarX (.val (meanCompute (part0 p 0) (part0 p 1)))) }

def fnMean (a : Args) : Except Err String := do
  let i ← liftP (a.tensor "input")
  let w ← aggWeight a "weight" i
  pure (showScalarX (← meanFn i.data w))

def famSum (_ : Args) : Except String Fam := pure {
  stat := fun a => do
    let i ← liftP (a.tensor "input")
    let w ← aggWeight a "weight" i
    Fams.sumStat (i.data, w)
  outA := fun p => .ok (showScalarX (.val (part0 p 0))) }

/-! ### Max / Min -/

def packExt (pick : Q → Q → Q) (empty : XQ) : Pack :=
  let m := extImpl pick empty
  ⟨Option Q, {
    init := m.init
    upd := fun s a => do let i ← liftP (a.tensor "input"); m.upd s i.data
    mrg := m.mrg
    out := fun s => do pure (showScalarX (← m.out s)) }⟩

/-! ### AUC -/

def aucCheck (x y : T) (nTasks : Nat) : Except Err (Mat × Mat) := do
  if x.data.isEmpty || y.data.isEmpty then throw .value
  let xs := if x.ndim == 1 then 1 :: x.shape else x.shape
  let ys := if y.ndim == 1 then 1 :: y.shape else y.shape
  if xs != ys then throw .value
  if xs.head? != some nTasks then throw .value
  if xs.length != 2 then throw .other
  pure (asRows x, asRows y)

def fnAuc (a : Args) : Except Err String := do
  let x ← liftP (a.tensor "x"); let y ← liftP (a.tensor "y")
  let nTasks := if x.ndim > 1 then x.shape.headD 1 else 1
  let (xr, yr) ← aucCheck x y nTasks
  pure (showVecQ (auc (a.bool "reorder" false) xr yr))

/-- `AUC` runs the typed cache-all class `Fams.aucC` (TE/Model/FamsCache.lean): a sample is the
    column of points `(x, y)` of all tasks at one index. -/
def packAUC (cfg : Args) : Except String Pack :=
  match cfg.nat? "n_tasks" with
  | .error e => .error e
  | .ok nt =>
  let nTasks := nt.getD 1
  let reorder := cfg.bool "reorder" true
  let m := (Fams.aucC reorder nTasks).cls
  .ok ⟨Bool × List Fams.TaskPair, {
    init := m.init
    upd := fun s a => do
      let x ← liftP (a.tensor "x"); let y ← liftP (a.tensor "y")
      let (xr, yr) ← aucCheck x y nTasks
      m.upd s (Fams.taskPairsOf (xr.headD []).length xr yr)
    mrg := m.mrg
    out := fun s => do pure (showVecQ (← m.out s)) }⟩

/-! ### Covariance -/

def showCov (r : List Q × Mat) : String := showVecQ r.1 ++ " " ++ showMat r.2 r.1.length

def packCovariance (_ : Args) : Except String Pack := pure ⟨CovS, {
  init := covImpl.init
  upd := fun s a => do
    let o ← liftP (a.tensor "obs")
    if o.ndim != 2 then throw .assertion
    covImpl.upd s (o.shape.getD 1 0, o.rows)
  mrg := covImpl.mrg
  out := fun s => do pure (showCov (← covImpl.out s)) }⟩

/-! ### mean squared error -/

def mseArgs (a : Args) : Except Err (Mat × Mat × Nat × Bool × Option (List Q)) := do
  let i ← liftP (a.tensor "input"); let t ← liftP (a.tensor "target")
  let w ← optData a "sample_weight"
  if i.ndim ≥ 3 || t.ndim ≥ 3 then throw .value
  if i.shape != t.shape then throw .value
  match w with
  | some w => if w.shape.head? != t.shape.head? then throw .value
  | none => pure ()
  match asCols i, asCols t, w with
  | some (xc, n, two), some (tc, _, _), none => pure (xc, tc, n, two, none)
  | some (xc, n, two), some (tc, _, _), some w =>
    if w.ndim != 1 then throw .other else pure (xc, tc, n, two, some w.data)
  | _, _, _ => throw .other

def mseOut (uniform two : Bool) (sse : List Q) (sw : Q) : String :=
  let r := mseCompute uniform sse sw
  if two && !uniform then showVecX r else showScalarX (r.headD .nan)

def famMSE (cfg : Args) : Except String Fam := do
  let mo := cfg.strD "multioutput" "uniform_average"
  let ok := mo == "raw_values" || mo == "uniform_average"
  pure {
    stat := fun a => do
      if !ok then throw .value
      let (xc, tc, n, two, w) ← mseArgs a
      -- typed family of arity `d = #columns` (TE/Model/Fams.lean) + the arity marker of this adapter
      Fams.withMarker two (Fams.mseStat xc.length ⟨xc, tc, n, w⟩)
    outA := fun p =>
      if !ok then .error .value else
      let two := part0 p 2 != 0
      let sse := if two then p.getD 0 [] else [part0 p 0]
      .ok (mseOut (mo == "uniform_average") two sse (part0 p 1)) }

/-! ### R² -/

def parseMultiOut (s : String) : Option MultiOut :=
  match s with
  | "raw_values" => some .raw | "uniform_average" => some .uniform
  | "variance_weighted" => some .variance | _ => none

def famR2 (cfg : Args) : Except String Fam := do
  let mo := parseMultiOut (cfg.strD "multioutput" "uniform_average")
  let p : Int ← (match cfg.get? "num_regressors" with | none => pure 0 | some _ => cfg.int "num_regressors")
  pure {
    stat := fun a => do
      if mo.isNone || p < 0 then throw .value
      let i ← liftP (a.tensor "input"); let t ← liftP (a.tensor "target")
      if i.ndim ≥ 3 || t.ndim ≥ 3 then throw .value
      if i.shape != t.shape then throw .value
      match asCols i, asCols t with
      | some (xc, n, two), some (tc, _, _) =>
        -- typed family of arity `d = #columns` (TE/Model/Fams.lean) + the arity marker of this adapter
        Fams.withMarker two (Fams.r2Stat xc.length ⟨xc, tc, n, none⟩)
      | _, _ => throw .other
    outA := fun q =>
      match mo with
      | none => .error .value
      | some mo =>
        if p < 0 then .error .value else
        let two := part0 q 4 != 0
        let get := fun i => if two then q.getD i [] else [part0 q i]
        do
          let r ← r2Compute (get 0) (get 1) (get 2) (part0 q 3) mo p.toNat
          pure (if two && mo == .raw then showVecX r else showScalarX (r.headD .nan)) }

/-! ### Wasserstein-1D -/

def wassArgs (a : Args) (kx ky kxw kyw : String) :
    Except Err (List Q × List Q × Option (List Q) × Option (List Q)) := do
  let x ← liftP (a.tensor kx); let y ← liftP (a.tensor ky)
  let xw ← optData a kxw; let yw ← optData a kyw
  if x.data.isEmpty || y.data.isEmpty then throw .value
  if x.ndim > 1 || y.ndim > 1 then throw .value
  if x.ndim != 1 || y.ndim != 1 then throw .other
  let chk := fun (v : T) (w : Option T) => match w with
    | none => true
    | some w => !w.data.isEmpty && w.data.all (fun q => decide (0 < q)) && w.shape == v.shape
  if !chk x xw || !chk y yw then throw .value
  pure (x.data, y.data, xw.map (·.data), yw.map (·.data))

def fnWasserstein (a : Args) : Except Err String := do
  let (x, y, xw, yw) ← wassArgs a "x" "y" "x_weights" "y_weights"
  pure (showVecQ [← wasserstein x y xw yw])

/-- cache-all class: the typed `Fams.wassCls` (weighted samples of both distributions; missing weights are ones). -/
def packWasserstein (_ : Args) : Except String Pack := pure ⟨List (Q × Q) × List (Q × Q), {
  init := Fams.wassCls.init
  upd := fun s a => do
    let (x, y, xw, yw) ← wassArgs a "new_samples_dist_1" "new_samples_dist_2" "new_weights_dist_1" "new_weights_dist_2"
    Fams.wassCls.upd s ⟨x, y, xw, yw⟩
  mrg := Fams.wassCls.mrg
  out := fun s => do pure (showVecQ [← Fams.wassCls.out s]) }⟩

/-! ### PSNR -/

def psnrArgs (a : Args) : Except Err (List Q × List Q) := do
  let i ← liftP (a.tensor "input"); let t ← liftP (a.tensor "target")
  if i.shape != t.shape then throw .value
  pure (i.data, t.data)

def dataRangeOf (a : Args) : Except Err (Option Q) :=
  match a.get? "data_range" with
  | none => .ok none
  | some (.s "none") => .ok none
  | some (.s s) => match parseQ s with | .ok q => .ok (some q) | .error _ => .error .other
  | _ => .error .other

/-- exact argument of `log10` -/
def fnPsnrArg (a : Args) : Except Err String := do
  let dr ← dataRangeOf a
  if let some r := dr then if r ≤ 0 then throw .value
  let (x, t) ← psnrArgs a
  pure (showScalarX (← psnrFn x t dr))

/-- end value, evaluated with doubles -/
def fnPsnr (a : Args) : Except Err String := do
  let dr ← dataRangeOf a
  if let some r := dr then if r ≤ 0 then throw .value
  let (x, t) ← psnrArgs a
  pure (showScalarX (tenLog10F (← psnrFn x t dr)))

def packPsnr (cfg : Args) : Except String Pack :=
  match dataRangeOf cfg with
  | .error _ => .error "bad data_range"
  | .ok dr =>
  let m := Fams.psnrCls dr       -- typed class (TE/Model/FamsCache.lean)
  .ok ⟨PsnrS, {
    init := m.init
    upd := fun s a => do m.upd s (← psnrArgs a)
    mrg := m.mrg
    out := fun s => do pure (showScalarX (tenLog10F (← m.out s))) }⟩

/-! ### binary normalized entropy (end values evaluated with doubles) -/

def bneArgs (a : Args) (numTasks : Nat) (fromLogits : Bool) : Except Err (Mat × Mat × Option Mat × Bool) := do
  let i ← liftP (a.tensor "input"); let t ← liftP (a.tensor "target")
  let w ← optData a "weight"
  if i.shape != t.shape then throw .value
  if let some w := w then if w.shape != i.shape then throw .value
  if numTasks == 1 && i.ndim > 1 then throw .value
  if numTasks != 1 && (i.ndim == 1 || i.shape.head? != some numTasks) then throw .value
  if i.data.isEmpty then throw .runtime
  if !fromLogits && (i.data.any (fun q => decide (1 < q)) || i.data.any (fun q => decide (q < 0))) then throw .value
  if i.ndim > 2 || i.ndim == 0 then throw .other
  pure (asRows i, asRows t, w.map asRows, i.ndim == 2)

def bneRows (fromLogits : Bool) (x t : Mat) (w : Option Mat) : List (Q × Q × Q) :=
  (List.range x.length).map fun k =>
    bneUpdate lnF expF fromLogits (x.getD k []) (t.getD k []) (w.map fun w => w.getD k [])

def fnBne (a : Args) : Except Err String := do
  let nt := (← liftP (a.nat? "num_tasks")).getD 1
  let fl := a.bool "from_logits" false
  let (x, t, w, two) ← bneArgs a nt fl
  let r := (bneRows fl x t w).map fun (ce, pos, ex) => bneCompute lnF ce pos ex
  pure (if two then showVecX r else showScalarX (r.headD .nan))

def famBne (cfg : Args) : Except String Fam := do
  let nt := (← cfg.nat? "num_tasks").getD 1
  let fl := cfg.bool "from_logits" false
  pure {
    stat := fun a => do
      let (x, t, w, _) ← bneArgs a nt fl
      Fams.bneStat lnF expF fl nt ⟨x, t, w⟩
    outA := fun p =>
      let ce := part p 0 nt; let ex := part p 1 nt; let pos := part p 2 nt
      if ex.all (· == 0) then .ok "0:" else   -- `torch.all(self.num_examples == 0)`: no update yet
      .ok (showVecX ((List.range nt).map fun k => bneCompute lnF (ce.getD k 0) (pos.getD k 0) (ex.getD k 0))) }

/-! ### perplexity (end values evaluated with doubles) -/

/-- shape checks of `_perplexity_input_check`; the batch as `(vocab, logit rows, labels)` -/
def pplBatch (a : Args) (ignore : Option Int) : Except Err (Nat × Mat × List Int) := do
  let i ← liftP (a.tensor "input"); let t ← liftP (a.tensor "target")
  if t.ndim != 2 then throw .value
  if i.ndim != 3 then throw .value
  if i.shape.head? != t.shape.head? then throw .value
  if i.shape[1]? != t.shape[1]? then throw .value
  let v := i.shape.getD 2 0
  let rows := (T.rows { shape := [t.data.length, v], data := i.data })
  let tg ← liftP (t.data.mapM fun q => match qToInt? q with | some z => .ok z | none => .error "label")
  -- negative labels that are not ignored index from the end in torch: outside the modelled contract
  if (pplTokens rows tg ignore).any (fun p => decide (p.2 < 0)) then throw .other
  pure (v, rows, tg)

def pplArgs (a : Args) (ignore : Option Int) : Except Err (Q × Q) := do
  let (v, rows, tg) ← pplBatch a ignore
  pplUpdate expF lnF v rows tg ignore

def ignoreOf (a : Args) : Except String (Option Int) :=
  match a.get? "ignore_index" with
  | none => .ok none
  | some (.s "none") => .ok none
  | some _ => do pure (some (← a.int "ignore_index"))

def fnPerplexity (a : Args) : Except Err String := do
  let ig ← liftP (ignoreOf a)
  let (s, n) ← pplArgs a ig
  pure (showScalarX (pplCompute expF s n))

def famPerplexity (cfg : Args) : Except String Fam := do
  let ig ← ignoreOf cfg
  pure {
    stat := fun a => do let (v, rows, tg) ← pplBatch a ig; Fams.pplStat expF lnF v ig (rows, tg)
    outA := fun p => if part0 p 1 = 0 then .ok "0:" else .ok (showScalarX (pplCompute expF (part0 p 0) (part0 p 1))) }

/-! ### Throughput -/

def thrArgs (a : Args) : Except Err (Q × Q) := liftP do
  let n ← a.ratD "num_processed" 0; let e ← a.ratD "elapsed_time_sec" 0; pure (n, e)

def fnThroughput (a : Args) : Except Err String := do
  let (n, e) ← thrArgs a
  pure (showScalarX (.val (← throughputFn n e)))

def packThroughput (_ : Args) : Except String Pack := pure ⟨Q × Q, {
  init := thrImpl.init
  upd := fun s a => do thrImpl.upd s (← thrArgs a)
  mrg := thrImpl.mrg
  out := fun s => do pure (showScalarX (.val (← thrImpl.out s))) }⟩

/-! ### Fréchet audio distance: moments, and the rational part of the Gaussian Fréchet distance -/

def fnFadMoments (a : Args) : Except Err String := do
  let e ← liftP (a.tensor "embeddings")
  if e.ndim != 2 || e.shape.headD 0 < 2 then throw .other
  let d := e.shape.getD 1 0
  pure (showCov (fadMoments (fadBatch d e.rows)))

/-- partial sums accumulated batch by batch (as `_update_state` / `merge_state` do), then the moments -/
def fnFadMomentsStream (a : Args) : Except Err String := do
  let es ← liftP (a.tlist "embeddings")
  let d := (es.head?.map fun e => e.shape.getD 1 0).getD 0
  if es.any (fun e => e.ndim != 2 || e.shape.getD 1 0 != d) then throw .other
  let s := es.foldl (fun s e => fadAdd s (fadBatch d e.rows)) (fadBatch d [])
  if s.n < 2 then throw .other
  pure (showCov (fadMoments s))

def fnFrechetAB (a : Args) : Except Err String := do
  let mx ← liftP (a.tensor "mu_x"); let my ← liftP (a.tensor "mu_y")
  let cx ← liftP (a.tensor "cov_x"); let cy ← liftP (a.tensor "cov_y")
  if mx.ndim != 1 || my.ndim != 1 || cx.ndim != 2 || cy.ndim != 2 then throw .value
  if mx.shape != my.shape || cx.shape != cy.shape then throw .value
  pure (showScalarX (.val (frechetAB mx.data my.data cx.rows cy.rows)))

/-! ### spec oracles: the `TE/Spec/Agg.lean` definitions, evaluated (undefined ratios print `nan`) -/

def guard0 (den v : Q) : XQ := if den = 0 then .nan else .val v

def specWeights (a : Args) (k : String) (n : Nat) : Except Err (List Q) := do
  match a.get? k with
  | none => pure (List.replicate n 1)
  | some (.s "none") => pure (List.replicate n 1)
  | some (.s s) => match parseQ s with | .ok q => pure (List.replicate n q) | .error _ => throw .other
  | some (.t w) => pure w.data
  | _ => throw .other

def specMean (a : Args) : Except Err String := do
  let i ← liftP (a.tensor "input"); let w ← specWeights a "weight" i.data.length
  pure (showScalarX (guard0 w.sum (Spec.Agg.wmean w i.data)))

def specSum (a : Args) : Except Err String := do
  let i ← liftP (a.tensor "input"); let w ← specWeights a "weight" i.data.length
  pure (showScalarX (.val (Spec.Agg.wsum w i.data)))

def specAuc (a : Args) : Except Err String := do
  let x ← liftP (a.tensor "x"); let y ← liftP (a.tensor "y")
  let reorder := a.bool "reorder" false
  pure (showVecQ (List.zipWith (fun xs ys =>
    if reorder then Spec.Agg.auc (xs.zip ys) else Spec.Agg.trapzPts (xs.zip ys)) (asRows x) (asRows y)))

def specCov (a : Args) : Except Err String := do
  let o ← liftP (a.tensor "obs")
  if o.ndim != 2 || o.shape.headD 0 < 2 then throw .other
  let d := o.shape.getD 1 0
  let c := cols d o.rows
  pure (showVecQ (c.map Spec.Agg.mean) ++ " " ++ showMat (c.map fun ci => c.map fun cj => Spec.Agg.cov ci cj) d)

def specMse (a : Args) : Except Err String := do
  let i ← liftP (a.tensor "input"); let t ← liftP (a.tensor "target")
  match asCols i, asCols t with
  | some (xc, n, two), some (tc, _, _) =>
    let w ← specWeights a "sample_weight" n
    let raw := List.zipWith (fun x y => guard0 w.sum (Spec.Agg.wmse w x y)) xc tc
    if a.strD "multioutput" "uniform_average" == "raw_values" then
      pure (if two then showVecX raw else showScalarX (raw.headD .nan))
    else pure (showScalarX (xmean raw))
  | _, _ => throw .other

def specR2 (a : Args) : Except Err String := do
  let i ← liftP (a.tensor "input"); let t ← liftP (a.tensor "target")
  let p := (← liftP (a.nat? "num_regressors")).getD 0
  match asCols i, asCols t with
  | some (xc, n, two), some (tc, _, _) =>
    if n < 2 || (n : Int) - 1 ≤ p then throw .value
    if tc.any (fun y => Spec.Agg.tss y == 0) then throw .other
    let adj := fun r => if p = 0 then r else Spec.Agg.r2adj n p r
    let raw := List.zipWith Spec.Agg.r2 xc tc
    match a.strD "multioutput" "uniform_average" with
    | "raw_values" => pure (if two then showVecQ (raw.map adj) else showScalarX (.val (adj (raw.headD 0))))
    | "variance_weighted" => pure (showScalarX (.val (adj (Spec.Agg.r2vw xc tc))))
    | _ => pure (showScalarX (.val (adj (Spec.Agg.mean raw))))
  | _, _ => throw .other

def specWasserstein (a : Args) : Except Err String := do
  let x ← liftP (a.tensor "x"); let y ← liftP (a.tensor "y")
  let xw ← specWeights a "x_weights" x.data.length; let yw ← specWeights a "y_weights" y.data.length
  if xw.sum = 0 || yw.sum = 0 then throw .other
  pure (showVecQ [Spec.Agg.w1 (x.data.zip xw) (y.data.zip yw)])

def specPsnrArg (a : Args) : Except Err String := do
  let (x, t) ← psnrArgs a
  let dr ← dataRangeOf a
  let range ← (match dr, reduceBy qmax t, reduceBy qmin t with
    | some r, _, _ => pure r
    | none, some hi, some lo => pure (hi - lo)
    | _, _, _ => throw .other)
  let sse := (List.zipWith (fun u v => (u - v) * (u - v)) x t).sum
  pure (showScalarX (if sse = 0 then (if range = 0 then .nan else .pinf) else .val (Spec.Agg.psnrRatio range x t)))

def specThroughput (a : Args) : Except Err String := do
  let n ← liftP (a.tensor "num_processed"); let e ← liftP (a.tensor "elapsed_time_sec")
  pure (showScalarX (guard0 e.data.sum (Spec.Agg.throughput n.data e.data)))

def specFadMoments (a : Args) : Except Err String := do
  let e ← liftP (a.tensor "embeddings")
  if e.ndim != 2 || e.shape.headD 0 < 2 then throw .other
  let d := e.shape.getD 1 0
  let c := cols d e.rows
  pure (showVecQ (c.map Spec.Agg.mean) ++ " " ++ showMat (c.map fun ci => c.map fun cj => Spec.Agg.cov ci cj) d)

/-! ### tables -/

/-- (functional name, class name, configured family) — sufficient-statistic / cache-all classes. -/
def aggFams : List (String × String × (Args → Except String Fam)) := [
  ("mean.class", "Mean", famMean),
  ("sum", "Sum", famSum),
  ("mean_squared_error", "MeanSquaredError", famMSE),
  ("r2_score", "R2Score", famR2),
  ("binary_normalized_entropy.class", "BinaryNormalizedEntropy", famBne),
  ("perplexity.class", "Perplexity", famPerplexity)
]

/-- (class name, packaged class model) — classes that are not `additive` over `Parts` (own state machine). -/
def aggPacks : List (String × (Args → Except String Pack)) := [
  ("Max", fun _ => pure (packExt qmax .ninf)),
  ("Min", fun _ => pure (packExt qmin .pinf)),
  ("AUC", packAUC),
  ("Covariance", packCovariance),
  ("Throughput", packThroughput),
  ("Wasserstein1D", packWasserstein),
  ("PeakSignalNoiseRatio", packPsnr)
]

/-- (request name, handler) — functionals without a class twin and `spec.*` oracles. -/
def aggFns : List (String × (Args → Except Err String)) := [
  ("mean", fnMean),
  ("auc", fnAuc),
  ("wasserstein_1d", fnWasserstein),
  ("peak_signal_noise_ratio.arg", fnPsnrArg),
  ("peak_signal_noise_ratio", fnPsnr),
  ("binary_normalized_entropy", fnBne),
  ("perplexity", fnPerplexity),
  ("throughput", fnThroughput),
  ("fad.moments", fnFadMoments),
  ("fad.moments_stream", fnFadMomentsStream),
  ("gaussian_frechet_distance.ab", fnFrechetAB),
  ("spec.mean", specMean),
  ("spec.sum", specSum),
  ("spec.auc", specAuc),
  ("spec.covariance", specCov),
  ("spec.mean_squared_error", specMse),
  ("spec.r2_score", specR2),
  ("spec.wasserstein_1d", specWasserstein),
  ("spec.peak_signal_noise_ratio.arg", specPsnrArg),
  ("spec.throughput", specThroughput),
  ("spec.fad.moments", specFadMoments)
]

end TE.Driver
