/-
  TE.Driver.Kernels — requests `gen.<kernel>`: evaluate the GENERATED term of a kernel (TE/Gen/Kernels.lean,
  written by harness/translators/kernels.py from /repo's working tree) on parsed arguments, so that the
  generated terms are also run against the real private kernel functions (kernel stream of harness/props/c04.py).

  Argument syntax (on top of TE/Driver/Proto.lean): tensors `SHAPE:DATA` of rank ≤ 2; Python values are typed
  by a prefix because the kernels distinguish `None` from strings and ints from floats:
      none   s.<string>   i.<int>   q.<rational>   b.true | b.false
  Output: the tensors of the result (tuples flattened), as everywhere else.
-/
import TE.Driver.Proto
import TE.Model.TExpr
import TE.Gen.Kernels
import TE.Gen.KernelsAgg
import TE.Gen.KernelsRank
import TE.Gen.KernelsCurve
import TE.Gen.KernelsBinned
namespace TE.Driver
open TE TE.TX

def kernelArg (v : TE.Val) : Except String TX.Val :=
  match v with
  | .t x =>
    match x.shape with
    | [] => .ok (.scalar (.val (x.data.headD 0)))
    | [_] => .ok (.vec (x.data.map .val))
    | [_, _] => .ok (.mat (x.rows.map fun r => r.map .val))
    | _ => .error "kernel argument of rank > 2"
  | .l _ => .error "kernel argument: list of tensors"
  | .s s =>
    if s = "none" then .ok .none
    else if s.startsWith "s." then .ok (.str (s.drop 2).toString)
    else if s.startsWith "i." then
      match (s.drop 2).toString.toInt? with
      | some i => .ok (.int i) | none => .error s!"bad int '{s}'"
    else if s.startsWith "q." then
      match parseQ (s.drop 2).toString with
      | .ok q => .ok (.num q) | .error m => .error m
    else if s = "b.true" then .ok (.bool true)
    else if s = "b.false" then .ok (.bool false)
    else .error s!"untyped kernel argument '{s}'"

partial def showKernelVal : TX.Val → Except Err String
  | .scalar x => .ok (showScalarX x)
  | .vec l => .ok (showVecX l)
  | .mat r => .ok (showMatX r (r.headD []).length)
  | .pair a b => do
    let x ← showKernelVal a
    let y ← showKernelVal b
    pure (x ++ " " ++ y)
  | .int i => .ok (showScalarX (.val (i : Q)))
  | .num q => .ok (showScalarX (.val q))
  | .bool b => .ok (showScalarX (b2x b))
  | .str _ => .error .other
  | .none => .error .other

/-- a kernel of the form `10 * log10(arg)` is run up to the uninterpreted function: the request answers `arg`
    (the harness applies `10 * log10` itself), as the models of TE/Model/Agg.lean do. -/
def upToUfun : TExpr → TExpr
  | .arith .mul (.int 10) (.ufun _ a) => a
  | t => t

def runKernel (k : Kernel) (a : Args) : Except Err String :=
  match k with
  | .untranslated _ _ => .error .notImpl
  | .translated _ params body =>
    match a.mapM (fun p => (kernelArg p.2).map fun v => (p.1, v)) with
    | .error _ => .error .other
    | .ok env =>
      -- every parameter must be supplied (the harness passes defaults explicitly)
      if params.all (fun p => env.any (·.1 == p)) then do
        let v ← eval env (upToUfun body)
        showKernelVal v
      else .error .other

/-- `gen.<kernel>` for the kernels of C04 (TE/Gen/Kernels.lean), C07 (TE/Gen/KernelsAgg.lean), C08
    (TE/Gen/KernelsRank.lean), C05 (TE/Gen/KernelsCurve.lean) and C06 (TE/Gen/KernelsBinned.lean).  Free variables of a generated term that are not parameters (`finfo.tiny`: a constant
    of the storage dtype, which is not modelled) are supplied by the request like parameters. -/
def kernelFns : List (String × (Args → Except Err String)) :=
  (Gen.kernels ++ Gen.Agg.kernels ++ Gen.Rank.kernels ++ Gen.Curve.kernels ++ Gen.Binned.kernels).map fun k => ("gen." ++ k.name, runKernel k)

end TE.Driver
