/-
  TE.Driver.Sync — protocol adapter of the sync model (C02, C15).  Not part of any theorem.

  requests (all values are plain strings for the generic argument parser: no ':' '=' ' '):
    fn sync.send_tensors world=<n> group=<g0,g1,…> dst=<none|d> init=<true|false> junk=<q> r<g>=<tensor> …
    fn sync.sync_states  world=<n> group=<…> dst=<…> junk=<q> r<g>=<collection> …
    fn sync.synced_bag   world=<n> group=<…> init=<…> r<g>=<collection of one metric `tmp`> …
    fn sync.syncable     world=<n> group=<…> r<g>=<collection> …      → `true` | `false`: the checker `syncableB`
                         of the theorems' hypothesis `Syncable` (sound: TE.C15.syncable_checker_sound)
  `r<g>` is indexed by GLOBAL rank; `dst` is what the caller passes as `rank` (group-relative in synclib);
  the roots shown in traces (`g/…/<dst>`, `go/<dst>`, `bo/<src>`) are what torch is handed: GLOBAL ranks.
    tensor      <dtype>@<d0xd1…>@<q,q,…>        (0-dim: `float32@@5`, empty: `float32@0@`)
    state       T<tensor> | L(<tensor>;…) | D(<key>~<tensor>;…) | I<int> | F<q>
    collection  <metric>.<state>!<state>&…       (`-` for the empty collection)
  answer:  status=<ok|mismatch kind> t<i>=<trace of member i> … v<i>=<value of member i> …
    trace   ag/<dtype>/<shape> | g/<dtype>/<shape>/<dst> | ago | go/<dst> | bo/<src>   comma separated
    value   none | [<tensor>;…] | [<collection>|<collection>|…] | <collection>
-/
import TE.Driver.Fam
import TE.Spec.Sync
namespace TE.Driver
open TE TE.Sync

namespace SyncP

def dtypeNames : List (String × DType) :=
  [("float16", .f16), ("bfloat16", .bf16), ("float32", .f32), ("float64", .f64), ("uint8", .u8),
   ("int8", .i8), ("int16", .i16), ("int32", .i32), ("int64", .i64), ("bool", .bool)]

def showDType (d : DType) : String :=
  match dtypeNames.find? (·.2 == d) with
  | some (n, _) => n
  | none => "?"

def parseDType (s : String) : Except String DType :=
  match dtypeNames.find? (·.1 == s) with
  | some (_, d) => .ok d
  | none => .error s!"bad dtype '{s}'"

def parseTensor (s : String) : Except String Tensor :=
  match s.splitOn "@" with
  | [dt, sh, da] => do
    let d ← parseDType dt
    let shape ← (if sh = "" then pure [] else
      (sh.splitOn "x").mapM fun x => match x.toNat? with
        | some n => pure n | none => throw s!"bad dim '{x}'")
    let data ← (if da = "" then pure [] else (da.splitOn ",").mapM parseQ)
    if prod shape ≠ data.length then throw s!"shape/data mismatch '{s}'"
    pure ⟨d, shape, data⟩
  | _ => .error s!"bad tensor '{s}'"

def inner (s : String) : String := ((s.drop 2).dropEnd 1).toString   -- `X(…)` → `…`

def parseState (s : String) : Except String TState :=
  if s.startsWith "T" then do pure (.tensor (← parseTensor (s.drop 1).toString))
  else if s.startsWith "L(" then do
    let i := inner s
    let ts ← (if i = "" then pure [] else (i.splitOn ";").mapM parseTensor)
    pure (.list ts)
  else if s.startsWith "D(" then do
    let i := inner s
    let kv ← (if i = "" then pure [] else (i.splitOn ";").mapM fun e =>
      match e.splitOn "~" with
      | [k, t] => do pure (k, ← parseTensor t)
      | _ => throw s!"bad dict entry '{e}'")
    pure (.dict kv)
  else if s.startsWith "I" then
    match (s.drop 1).toString.toInt? with
    | some n => pure (.int n)
    | none => throw s!"bad int state '{s}'"
  else if s.startsWith "F" then do pure (.float (← parseQ (s.drop 1).toString))
  else throw s!"bad state '{s}'"

/-- `m.s!state&m.s!state` → nested state dict (insertion order as given). -/
def parseCollection (s : String) : Except String (List (String × List (String × TState))) := do
  if s = "-" then return []
  let entries ← (s.splitOn "&").mapM fun e =>
    match e.splitOn "!" with
    | [name, st] =>
      match name.splitOn "." with
      | [m, sn] => do pure (m, sn, ← parseState st)
      | _ => throw s!"bad state name '{name}'"
    | _ => throw s!"bad entry '{e}'"
  let mut out : List (String × List (String × TState)) := []
  for (m, sn, st) in entries do
    if out.any (·.1 == m) then
      out := out.map fun (m', l) => if m' == m then (m', l ++ [(sn, st)]) else (m', l)
    else
      out := out ++ [(m, [(sn, st)])]
  return out

def showTensor (t : Tensor) : String :=
  showDType t.dtype ++ "@" ++ showShape t.shape ++ "@" ++ ",".intercalate (t.data.map showQ)

def showState : TState → String
  | .tensor t => "T" ++ showTensor t
  | .list ts => "L(" ++ ";".intercalate (ts.map showTensor) ++ ")"
  | .dict kv => "D(" ++ ";".intercalate (kv.map fun (k, t) => k ++ "~" ++ showTensor t) ++ ")"
  | .int n => "I" ++ toString n
  | .float q => "F" ++ showQ q

def showRow (row : List (Key × TState)) : String :=
  if row.isEmpty then "-" else
  "&".intercalate (row.map fun ((m, s), v) => m ++ "." ++ s ++ "!" ++ showState v)

def showSD (m : String) (sd : List (String × TState)) : String :=
  showRow (sd.map fun (s, v) => ((m, s), v))

def showReq : Req → String
  | .allGather t => s!"ag/{showDType t.dtype}/{showShape t.shape}"
  | .gather d _ t => s!"g/{showDType t.dtype}/{showShape t.shape}/{d}"
  | .allGatherObj _ => "ago"
  | .gatherObj d _ _ => s!"go/{d}"
  | .broadcastObj s _ => s!"bo/{s}"

def showMismatch : Mismatch → String
  | .differentCollectives => "different-collectives"
  | .dtypeShapeDiffers => "dtype-shape-differs"
  | .rootDiffers => "root-differs"
  | .rootNotInGroup => "root-not-in-group"
  | .rootNotMeant => "root-is-not-the-member-meant"
  | .peerFinished => "peer-finished"
  | .crashed e => "crashed-" ++ e.tag
  | .arity => "arity"

def memberTrace (rounds : List (List (Option Req))) (i : Nat) : String :=
  ",".intercalate (rounds.filterMap fun r => (r[i]?.join).map showReq)

def showRun {R : Type} (n : Nat) (run : Run R) (showV : R → String) : String :=
  let traces := (List.range n).map fun i => s!"t{i}={memberTrace run.rounds i}"
  match run.out with
  | .error m => " ".intercalate (s!"status={showMismatch m}" :: traces)
  | .ok vs => " ".intercalate ("status=ok" :: traces ++ (vs.zipIdx.map fun (v, i) => s!"v{i}={showV v}"))

structure Setup where
  gws : Nat
  group : List Nat
  dst : Option Nat
  init : Bool
  junk : Q

def parseSetup (a : Args) : Except String Setup := do
  let gws ← a.nat "world"
  let g ← a.str "group"
  let group ← (g.splitOn ",").mapM fun x => match x.toNat? with
    | some n => pure n | none => throw s!"bad group member '{x}'"
  let dst ← a.nat? "dst"
  let junk ← a.ratD "junk" 0
  pure { gws, group, dst, init := a.bool "init" true, junk }

def envs (s : Setup) : List Env :=
  (List.range s.group.length).map fun i => { me := i, ws := s.group.length, grp := s.group, dst := s.dst, junk := s.junk }

def memberArgs {α : Type} (a : Args) (s : Setup) (parse : String → Except String α) : Except String (List α) :=
  s.group.mapM fun g => do parse (← a.str s!"r{g}")

/-! the custom metric `Bag` of harness/props/c02.py: merge = cat 1-d+ tensors, add 0-d tensors,
    extend lists, add dict entries per key (new keys appended), add numbers. -/
def bagMergeOne (s o : List (String × TState)) : Except Err (List (String × TState)) :=
  s.mapM fun (name, v) =>
    match lookupKey name o with
    | none => .error .other                    -- AttributeError on the pseudo-metric
    | some w =>
      match v, w with
      | .tensor a, .tensor b =>
        if a.shape.length == 0 then
          .ok (name, .tensor ⟨a.dtype, a.shape, List.zipWith (· + ·) a.data b.data⟩)
        else .ok (name, .tensor ⟨a.dtype, (a.shape.headD 0 + b.shape.headD 0) :: a.shape.drop 1, a.data ++ b.data⟩)
      | .list a, w => .ok (name, .list (a ++ listCell w))      -- `extend({})` adds nothing
      | .dict a, .dict b =>
        let ks := sortKeys (b.map (·.1))
        let upd := a.map fun (k, t) => match lookupKey k b with
          | some u => (k, (⟨t.dtype, t.shape, List.zipWith (· + ·) t.data u.data⟩ : Tensor))
          | none => (k, t)
        let fresh := ks.filterMap fun k => if a.any (·.1 == k) then none else (lookupKey k b).map fun u => (k, u)
        .ok (name, .dict (upd ++ fresh))
      | .int a, .int b => .ok (name, .int (a + b))
      | .float a, .float b => .ok (name, .float (a + b))
      | .float a, .int b => .ok (name, .float (a + b))
      | _, _ => .error .type

def bagMetric : MetricI (List (String × TState)) where
  prep := id
  sd := id
  mrg s os := os.foldlM bagMergeOne s

end SyncP
open SyncP

def fnSendTensors (a : Args) : Except Err String := liftP do
  let s ← parseSetup a
  let ts ← memberArgs a s parseTensor
  let progs := (envs s).zipWith (fun e t => sendTensorsTop s.init e t) ts
  pure (showRun s.group.length (runWorldL s.group progs) fun v =>
    match v with | none => "none" | some l => "[" ++ ";".intercalate (l.map showTensor) ++ "]")

def fnSyncStates (a : Args) : Except Err String := liftP do
  let s ← parseSetup a
  let cs ← memberArgs a s parseCollection
  let progs := (envs s).zipWith (fun e c => syncStates e c) cs
  pure (showRun s.group.length (runWorldL s.group progs) fun v =>
    match v with | none => "none" | some rows => "[" ++ "|".intercalate (rows.map showRow) ++ "]")

def fnSyncedBag (a : Args) : Except Err String := liftP do
  let s ← parseSetup a
  let cs ← memberArgs a s parseCollection
  let sds := cs.map fun c => (lookupKey tmpName c).getD []
  let progs := (envs s).zipWith (fun e sd => getSyncedMetric bagMetric s.init e sd) sds
  pure (showRun s.group.length (runWorldL s.group progs) (showSD tmpName))

def fnSyncable (a : Args) : Except Err String := liftP do
  let s ← parseSetup a
  let cs ← memberArgs a s parseCollection
  pure (if syncableB (cs.map traversal) then "true" else "false")

/-- (request name, handler) -/
def syncFns : List (String × (Args → Except Err String)) :=
  [("sync.send_tensors", fnSendTensors), ("sync.sync_states", fnSyncStates), ("sync.synced_bag", fnSyncedBag),
   ("sync.syncable", fnSyncable), ("sync.ping", fun _ => .ok "pong")]

end TE.Driver
