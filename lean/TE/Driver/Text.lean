/-
  TE.Driver.Text — protocol adapters of the Text family (see TE/Driver/Count.lean for the conventions).
  Wire format: a sentence is a 1-D tensor of token ids (`0:` = no token); `input=<tensor>` is a `str`
  argument, `input=[t;t]` a `list[str]`; a BLEU `target` is the flat list of the references in which every
  candidate's group of references is followed by the terminator tensor `1:-1` (a list without any
  terminator is a list of single-reference groups).
  BLEU's final step (`exp`, `log`) is evaluated here in `Float` (IEEE double) on the exact rational
  ingredients the model returns.
-/
import TE.Driver.Fam
import TE.Model.Text
import TE.Model.Fams
import TE.Spec.Text
namespace TE.Driver
open TE TE.Text

namespace TextA

abbrev Tok := Int
abbrev Sent := List Tok

def sentOf (t : T) : Except String Sent :=
  t.data.mapM fun q => match qToInt? q with
    | some n => .ok n | none => .error "non-integer token"

/-- a `str | list[str]` argument: (is a list, sentences) -/
def textArg (a : Args) (k : String) : Except String (Bool × List Sent) :=
  match a.get? k with
  | some (.t x) => do pure (false, [← sentOf x])
  | some (.l xs) => do pure (true, ← xs.mapM sentOf)
  | _ => .error s!"missing text arg '{k}'"

def isTerm (s : Sent) : Bool := s == [-1]

/-- split the flat reference list into the per-candidate groups. -/
def groups (ss : List Sent) : List (List Sent) :=
  if !ss.any isTerm then ss.map fun s => [s] else
  let rec go (l : List Sent) (cur : List Sent) (acc : List (List Sent)) : List (List Sent) :=
    match l with
    | [] => acc.reverse
    | s :: l => if isTerm s then go l [] (cur.reverse :: acc) else go l (s :: cur) acc
  go ss [] []

/-! edit distance (both copies) -/

def fnEditDistance (a : Args) : Except Err String := do
  let p ← liftP (a.tensor "prediction_tokens"); let r ← liftP (a.tensor "reference_tokens")
  let p ← liftP (sentOf p); let r ← liftP (sentOf r)
  let d := if a.strD "copy" "wer" == "helper" then editDistanceHelper p r else editDistance p r
  pure (showTQ [] [(d : Q)])

def specEditDistance (a : Args) : Except Err String := do
  let p ← liftP (a.tensor "prediction_tokens"); let r ← liftP (a.tensor "reference_tokens")
  let p ← liftP (sentOf p); let r ← liftP (sentOf r)
  let d := if a.strD "copy" "wer" == "list" then Spec.Text.levL p r else Spec.Text.lev p r
  pure (showTQ [] [(d : Q)])

/-! WER / WIP / WIL -/

/-- `_word_error_rate_input_check` / `_word_information_preserved_input_check` -/
def sameTypeArgs (a : Args) : Except Err (List Sent × List Sent) := do
  let (li, i) ← liftP (textArg a "input"); let (lt, t) ← liftP (textArg a "target")
  if li != lt then throw .value
  if li && i.length != t.length then throw .value
  pure (i, t)

/-- `_wil_update`: both arguments wrapped into lists, then `assert len(input) == len(target)` -/
def wilArgs (a : Args) : Except Err (List Sent × List Sent) := do
  let (_, i) ← liftP (textArg a "input"); let (_, t) ← liftP (textArg a "target")
  if i.length != t.length then throw .assertion
  pure (i, t)

def famWer (_ : Args) : Except String Fam := pure {
  stat := fun a => do
    let (i, t) ← sameTypeArgs a
    Fams.werStat (i, t)
  outA := fun p => .ok (showScalarX (werCompute (part0 p 0) (part0 p 1))) }

def famWip (_ : Args) : Except String Fam := pure {
  stat := fun a => do
    let (i, t) ← sameTypeArgs a
    Fams.wipStat (i, t)
  outA := fun p => .ok (showScalarX (wipCompute (part0 p 0) (part0 p 1) (part0 p 2))) }

def famWil (_ : Args) : Except String Fam := pure {
  stat := fun a => do
    let (i, t) ← wilArgs a
    Fams.wilStat (i, t)
  outA := fun p => .ok (showScalarX (wilCompute (part0 p 0) (part0 p 1) (part0 p 2))) }

def pairsOf (a : Args) : Except Err (List (Sent × Sent)) := do
  let (_, i) ← liftP (textArg a "input"); let (_, t) ← liftP (textArg a "target")
  pure (i.zip t)

def specWer (a : Args) : Except Err String := do
  pure (showScalarX (Spec.Text.wer (← pairsOf a)))

/-- WIP/WIL are `nan` as soon as one of the totals is zero (0/0). -/
def specWip (a : Args) : Except Err String := do
  let ps ← pairsOf a
  if Spec.Text.refTotal ps = 0 ∨ Spec.Text.hypTotal ps = 0 then pure (showScalarX .nan)
  else pure (showScalarX (.val (Spec.Text.wip ps)))

def specWil (a : Args) : Except Err String := do
  let ps ← pairsOf a
  if Spec.Text.refTotal ps = 0 ∨ Spec.Text.hypTotal ps = 0 then pure (showScalarX .nan)
  else pure (showScalarX (.val (Spec.Text.wil ps)))

/-! BLEU -/

def q2f (q : Q) : Float := Float.ofInt q.num / Float.ofNat q.den

/-- exact value of an IEEE double. -/
def floatToXQ (x : Float) : XQ :=
  if x.isNaN then .nan
  else if x.isInf then (if x > 0 then .pinf else .ninf)
  else
    let b := x.toBits.toNat
    let sign := b >>> 63
    let e := (b >>> 52) % 2048
    let m := b % (2 ^ 52)
    let mant : Nat := if e = 0 then m else m + 2 ^ 52
    let ex : Int := if e = 0 then -1074 else (e : Int) - 1075
    let v : Q := if 0 ≤ ex then ((mant * 2 ^ ex.toNat : Nat) : Q)
                 else (mant : Q) / ((2 ^ (-ex).toNat : Nat) : Q)
    .val (if sign = 1 then -v else v)

/-- `_bleu_score_compute` in double precision: brevity penalty × exp(Σ wᵢ·log(mᵢ/pᵢ)). -/
def bleuFloat (inputLen targetLen : Q) (ms ps ws : List Q) : Float :=
  let precisions := (ms.zip ps).map fun p => q2f p.1 / q2f p.2
  let s := ((ws.zip precisions).map fun p => q2f p.1 * Float.log p.2).foldl (· + ·) 0.0
  let gm := Float.exp s
  let bp := if inputLen > targetLen then 1.0 else Float.exp (1.0 - q2f targetLen / q2f inputLen)
  bp * gm

/-- `weights=`: tensor or none (uniform 1/n). -/
def weightsOf (a : Args) (_n : Nat) : Except String (Option (List Q)) := do
  match ← a.tensor? "weights" with
  | none => pure none
  | some w => pure (some w.data)

def bleuCompute (n : Nat) (w : Option (List Q)) (il tl : Q) (ms ps : List Q) : Except Err String := do
  let ws ← (match w with
    | some ws => if ws.length != n then .error Err.value else .ok ws
    | none => .ok (List.replicate n (1 / (n : Q))))
  pure (showScalarX (floatToXQ (bleuFloat il tl ms ps ws)))

def bleuArgs (a : Args) : Except Err (List Sent × List (List Sent)) := do
  let (_, i) ← liftP (textArg a "input")
  let t ← liftP (a.tlist "target")
  let t ← liftP (t.mapM sentOf)
  let g := groups t
  if i.length != g.length then throw .value
  pure (i, g)

def natQ (l : List Nat) : List Q := l.map fun (n : Nat) => (n : Q)

def fnBleu (a : Args) : Except Err String := do
  let n ← liftP (match a.get? "n_gram" with | none => pure 4 | _ => a.nat "n_gram")
  let w ← liftP (weightsOf a n)
  let (i, g) ← bleuArgs a
  let s ← bleuUpdate n i g
  bleuCompute n w (s.inputLen : Nat) (s.targetLen : Nat) (natQ s.matchesBy) (natQ s.possibleBy)

def famBleu (cfg : Args) : Except String Fam := do
  let n ← cfg.nat "n_gram"
  let w ← weightsOf cfg n
  if !(n = 1 ∨ n = 2 ∨ n = 3 ∨ n = 4) then throw "constructor raises ValueError"
  if (w.map (·.length)).getD n != n then throw "constructor raises ValueError"
  pure {
    stat := fun a => do
      let (i, g) ← bleuArgs a
      Fams.bleuStat n (i, g)
    outA := fun p =>
      let ms := part p 2 n
      if qsum ms = 0 then .ok (showScalarX (.val 0)) else
      bleuCompute n w (part0 p 0) (part0 p 1) ms (part p 3 n) }

/-- textbook BLEU ingredients (clipped counts per order, closest reference length by search) + the same final step. -/
def specBleu (a : Args) : Except Err String := do
  let n ← liftP (match a.get? "n_gram" with | none => pure 4 | _ => a.nat "n_gram")
  let w ← liftP (weightsOf a n)
  let (i, g) ← bleuArgs a
  let cs := i.zip g
  let ms := (List.range n).map fun o => ((cs.map fun c => Spec.Text.clippedMatches (o + 1) c.1 c.2).sum : Nat)
  let ps := (List.range n).map fun o => ((cs.map fun c => Spec.Text.possibleMatches (o + 1) c.1.length).sum : Nat)
  let il := (cs.map fun c => c.1.length).sum
  -- closest reference length: smallest (|r − c|, r) by exhaustive comparison
  let tl := (cs.map fun c =>
    let lens := c.2.map (·.length)
    (lens.filter fun r => lens.all fun x =>
      decide (absDiff r c.1.length < absDiff x c.1.length ∨ (absDiff r c.1.length = absDiff x c.1.length ∧ r ≤ x))).headD 0).sum
  bleuCompute n w (il : Nat) (tl : Nat) (natQ ms) (natQ ps)

end TextA

/-- (functional name, class name, configured family) — sufficient-statistic / cache-all classes.
    `BLEUScore.compute` has its own zero-match branch, so `bleu_score` is served from `textFns`. -/
def textFams : List (String × String × (Args → Except String Fam)) := [
  ("word_error_rate", "WordErrorRate", TextA.famWer),
  ("word_information_preserved", "WordInformationPreserved", TextA.famWip),
  ("word_information_lost", "WordInformationLost", TextA.famWil),
  ("bleu_score.state", "BLEUScore", TextA.famBleu)
]

/-- (class name, packaged class model) — classes that are not `additive` (own state machine). -/
def textPacks : List (String × (Args → Except String Pack)) := []

/-- (request name, handler) — functionals without a class twin and `spec.*` oracles. -/
def textFns : List (String × (Args → Except Err String)) := [
  ("bleu_score", TextA.fnBleu),
  ("edit_distance", TextA.fnEditDistance),
  ("spec.edit_distance", TextA.specEditDistance),
  ("spec.word_error_rate", TextA.specWer),
  ("spec.word_information_preserved", TextA.specWip),
  ("spec.word_information_lost", TextA.specWil),
  ("spec.bleu_score", TextA.specBleu)
]

end TE.Driver
