/-
  TE.Driver.Text — protocol adapters of the Text family (see TE/Driver/Count.lean for the conventions).
-/
import TE.Driver.Fam
namespace TE.Driver
open TE

/-- (functional name, class name, configured family) — sufficient-statistic / cache-all classes. -/
def textFams : List (String × String × (Args → Except String Fam)) := []

/-- (class name, packaged class model) — classes that are not `additive` (own state machine). -/
def textPacks : List (String × (Args → Except String Pack)) := []

/-- (request name, handler) — functionals without a class twin and `spec.*` oracles. -/
def textFns : List (String × (Args → Except Err String)) := []

end TE.Driver
