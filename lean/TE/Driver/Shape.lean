/-
  TE.Driver.Shape — protocol adapters for C18 (see TE/Driver/Count.lean for the conventions).
-/
import TE.Driver.Fam
namespace TE.Driver
open TE

def shapeFns : List (String × (Args → Except Err String)) := []

end TE.Driver
