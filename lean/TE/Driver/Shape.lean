/-
  TE.Driver.Shape — protocol adapters for C18.
    fn chk.<python helper name> k=v …   → ok | err <Kind>     the GENERATED check (TE/Gen/Shapes.lean) on the shapes sent
    fn valid.<stem> k=v …               → ok true|false        the documented contract `Valid_<stem>` (TE/Spec/Shape.lean)
    fn ctor.verdicts                    → ok Class|helper|ok;Class|helper|err;…   TE/Gen/Defaults.lean `defaultVerdicts` (C03)
    fn gap.names                        → ok stem::name|name;;stem::…   all pattern names
    fn gap.<stem> k=v …                 → ok <name;name;…|->       names of the gap patterns `patterns_<stem>` that match
  value tokens (no ':' so the generic parser keeps them as strings): `T2x3` shape (`T` = 0-dim), `none`,
  `I-3` int, `Smacro` string, `Btrue`/`Bfalse`, `L3` list of 3 strings, `Lstr` single string.
-/
import TE.Driver.Fam
import TE.Gen.Shapes
import TE.Spec.Shape
import TE.Gen.Defaults
namespace TE.Driver
open TE TE.Shape

def toCallArgs (a : Args) : CallArgs :=
  a.filterMap fun (k, v) => match v with
    | .s x => some (k, x)
    | _ => none

def ctorVerdicts (_ : Args) : Except Err String :=
  .ok (";".intercalate (Gen.defaultVerdicts.map fun (v : String × String × Res) =>
    v.1 ++ "|" ++ v.2.1 ++ "|" ++ (if v.2.2 == Res.ok then "ok" else "err")))

def gapNamesFn (_ : Args) : Except Err String :=
  .ok (";;".intercalate (ShapeSpec.gapNames.map fun (p : String × List String) => p.1 ++ "::" ++ "|".intercalate p.2))

def shapeFns : List (String × (Args → Except Err String)) :=
  Gen.dispatch.map (fun (n, f) => ("chk." ++ n, fun a =>
    match f (toCallArgs a) with
    | .ok => .ok ""
    | .err e => .error e))
  ++ ShapeSpec.validTable.map (fun (n, f) => ("valid." ++ n, fun a => .ok (toString (f (toCallArgs a)))))
  ++ ShapeSpec.gapTable.map (fun (n, f) => ("gap." ++ n, fun a =>
    let ms := f (toCallArgs a)
    .ok (if ms.isEmpty then "-" else ";".intercalate ms)))
  ++ [("ctor.verdicts", ctorVerdicts), ("gap.names", gapNamesFn)]

end TE.Driver
