#!/usr/bin/env python3
"""seedconfirm — confirm that a seeded change still passes the existing tests it touches.

    tools/seedconfirm.py <seed_dir> [more test paths …]

Applies <seed_dir>/patch.diff to a scratch worktree of /repo's HEAD, runs the test files named in
meta.json["tests_run"] (plus any given on the command line) there, and reports the failing tests that
are NOT in the baseline's always_fail list (/root/.vp/BASELINE.json).  Exit 0 iff there are none.
Writes <seed_dir>/confirm.json.
"""
import json, os, re, shutil, subprocess, sys, tempfile
from pathlib import Path

REPO = "/repo"
PY = "/venv/bin/python"


def main():
    sd = Path(sys.argv[1]).resolve()
    meta = json.loads((sd / "meta.json").read_text())
    # entries are test paths, node ids, or whole command lines that contain them
    tests = [m.split("::")[0] for t in meta.get("tests_run", []) for m in re.findall(r"tests/[\w/]+\.py(?:::\S+)?", t)] + sys.argv[2:]
    tests = sorted(set(tests))
    if not tests:
        print("seedconfirm: no test files named in meta.json['tests_run'] — give them on the command line")
        return 2
    base = json.loads(Path("/root/.vp/BASELINE.json").read_text())
    always = set(base.get("always_fail", []))
    tmp = Path(tempfile.mkdtemp(prefix="seedconfirm_", dir="/tmp"))
    wt = tmp / "repo"
    out = {"tests": tests}
    try:
        subprocess.run(["git", "-C", REPO, "worktree", "add", "-q", "--detach", str(wt), "HEAD"], check=True)
        r = subprocess.run(["git", "-C", str(wt), "apply", str(sd / "patch.diff")], capture_output=True, text=True)
        if r.returncode:
            print("patch does not apply", r.stderr); return 2
        tests = [t for t in tests if (wt / t).exists()]
        env = dict(os.environ, PYTHONPATH=str(wt))
        xml = tmp / "junit.xml"
        p = subprocess.run([PY, "-m", "pytest", "-q", "-p", "no:cacheprovider", "--timeout=900", f"--junitxml={xml}", *tests],
                           cwd=str(wt), env=env, capture_output=True, text=True)
        tail = p.stdout.strip().split("\n")[-1]
        failed = []
        if xml.exists():
            import xml.etree.ElementTree as ET
            for tc in ET.parse(xml).getroot().iter("testcase"):
                if tc.find("failure") is not None or tc.find("error") is not None:
                    failed.append(f"{tc.get('classname')}::{tc.get('name')}")
        new = [f for f in failed if f not in always]
        out.update({"pytest_tail": tail, "failed": failed, "failed_not_in_baseline_always_fail": new})
        print(sd, "|", tail, "| new failures:", new)
    finally:
        subprocess.run(["git", "-C", REPO, "worktree", "remove", "--force", str(wt)], capture_output=True)
        shutil.rmtree(tmp, ignore_errors=True)
        subprocess.run(["git", "-C", REPO, "worktree", "prune"], capture_output=True)
    (sd / "confirm.json").write_text(json.dumps(out, indent=1))
    return 0 if not out.get("failed_not_in_baseline_always_fail") else 1


if __name__ == "__main__":
    sys.exit(main())
