#!/usr/bin/env python3
"""print markdown: (1) repaired defects (`fixed:` lines of known_findings.jsonl) (2) recorded findings by property."""
import json, re
from pathlib import Path
V = Path(__file__).resolve().parent.parent
fixed, known = [], []
for l in (V / "known_findings.jsonl").read_text().split("\n"):
    l = l.strip()
    if l.startswith("fixed:"):
        m = re.match(r"fixed: property=(\S+) (\S+) (.*)", l)
        fixed.append(m.groups())
    elif l.startswith("{"):
        known.append(json.loads(l))
print("**Repaired in /repo**\n")
print("| property | /repo commit | defect (failing input) |\n|---|---|---|")
for p, c, w in fixed:
    print(f"| {p} | {c} | {w[:330]} |")
print()
print("**Recorded as known findings** (repair needs a state-dict / protocol / API decision, or the unedited suite encodes the\nbehaviour). A signature names the call site and configuration class; a different violation of the same property is\nstill reported (e.g. `C01|RetrievalPrecision|empty_target_action=pos|…` is recorded, `…|empty_target_action=neg|…` is not).\n")
print("| property | signature | what |\n|---|---|---|")
byp = {}
for k in known:
    byp.setdefault(k["property"], []).append(k)
for p in sorted(byp):
    ks = byp[p]
    if p == "C19" and len(ks) > 8:
        f32 = [k for k in ks if k["signature"].endswith("float32-saturates")]
        rest = [k for k in ks if k not in f32]
        names = sorted({k["signature"].split("|")[1] + "." + k["signature"].split("|")[2] for k in f32})
        print(f"| C19 | `C19|<Class>|<state>|float32-saturates` × {len(f32)} | float32 count accumulators stop counting at 2^24: {', '.join(names)[:900]} |")
        ks = rest
    for k in ks:
        print(f"| {p} | `{k['signature']}` | {' '.join(k['what'].split())[:300]} |")
