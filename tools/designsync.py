#!/usr/bin/env python3
"""designsync — regenerate the generated tables of DESIGN.md in place.

Regions are delimited by `<!-- BEGIN <name> -->` / `<!-- END <name> -->`; <name> is the tool under tools/ whose stdout
fills the region (seedtable, harmlesstable, findingstable).  Idempotent."""
import re, subprocess, sys
from pathlib import Path
V = Path(__file__).resolve().parent.parent
d = (V / "DESIGN.md").read_text()
for name in ("seedtable", "harmlesstable", "findingstable"):
    m = re.search(rf"<!-- BEGIN {name} -->\n.*?<!-- END {name} -->", d, flags=re.S)
    if not m:
        print("no region for", name); continue
    out = subprocess.run([sys.executable, str(V / "tools" / f"{name}.py")], capture_output=True, text=True, check=True).stdout.rstrip("\n")
    d = d[:m.start()] + f"<!-- BEGIN {name} -->\n{out}\n<!-- END {name} -->" + d[m.end():]
(V / "DESIGN.md").write_text(d)
print("DESIGN.md tables regenerated")
