#!/usr/bin/env python3
"""print the markdown table of /verif/seeded/*/meta.json (DESIGN.md §11.4 is generated with it)."""
import json
from pathlib import Path
V = Path(__file__).resolve().parent.parent
print("| id | breaks | change (author's summary) | needs to manifest | caught by (quick tier) | not caught by |")
print("|---|---|---|---|---|---|")
for d in sorted((V / "seeded").iterdir()):
    m = json.loads((d / "meta.json").read_text())
    def cut(s, n):
        s = " ".join(str(s or "").split())
        return s if len(s) <= n else s[: n - 1] + "…"
    caught = ", ".join(f"{k} ({(m['checks_run'][k]['violations'] or ['?'])[0]})" for k in m["caught_by"]) or "**none**"
    print(f"| {m['id']} | {m['breaks_property']} | {cut(m['summary'], 170)} | {cut(m['needs_to_manifest'], 170)} | {cut(caught, 260)} | {', '.join(m['not_caught_by'])} |")
