#!/usr/bin/env python3
"""mutbattery — thirteen one-line source mutations (one per source-driven tie and a few differential streams), each applied to a scratch
worktree of /repo and run through the registered quick check of a scratch copy of the COMMITTED /verif: every line must say exit 1.
A guard against translators that were generalised into blindness.  (/repo and /verif are not touched.)"""
import subprocess, sys, os, shutil, tempfile, json
from concurrent.futures import ThreadPoolExecutor
MUTS = [
 ("C06","torcheval/metrics/functional/classification/binned_precision_recall_curve.py","2 * (torch.searchsorted(threshold, input, right=True) - 1) + target","2 * (torch.searchsorted(threshold, input, right=False) - 1) + target"),
 ("C05","torcheval/metrics/functional/classification/recall_at_fixed_precision.py","recall[precision >= min_precision]","recall[precision > min_precision]"),
 ("C07","torcheval/metrics/functional/aggregation/mean.py","weighted_sum = weight * torch.sum(input)","weighted_sum = torch.sum(input)"),
 ("C07","torcheval/metrics/functional/aggregation/sum.py","return (input * weight).sum()","return (input + weight).sum()"),
 ("C08","torcheval/metrics/functional/ranking/reciprocal_rank.py","rank = torch.gt(input, y_score).sum(dim=-1)","rank = torch.ge(input, y_score).sum(dim=-1)"),
 ("C08","torcheval/metrics/functional/ranking/hit_rate.py","rank = torch.gt(input, y_score).sum(dim=-1)","rank = torch.gt(input, y_score).sum(dim=-1) + 1"),
 ("C04","torcheval/metrics/functional/classification/precision.py","mask = (num_label != 0) | ((num_tp + num_fp) != 0)","mask = (num_label != 0) & ((num_tp + num_fp) != 0)"),
 ("C04","torcheval/metrics/functional/classification/accuracy.py","    input = torch.where(input < threshold, 0, 1)\n\n    num_correct = (input == target).sum()","    input = torch.where(input <= threshold, 0, 1)\n\n    num_correct = (input == target).sum()"),
 ("C13","torcheval/metrics/window/click_through_rate.py","        self.next_inserted %= self.max_num_updates\n        self.total_updates += 1","        self.next_inserted %= self.max_num_updates - 1\n        self.total_updates += 1"),
 ("C02","torcheval/metrics/synclib.py","sorted(","list("),
 ("C01","torcheval/metrics/regression/mean_squared_error.py","self.sum_weight += metric.sum_weight.to(self.device)","self.sum_weight += 0 * metric.sum_weight.to(self.device)"),
 # a precision-losing cast the exact-arithmetic kernel terms read as the identity: only the low-precision stream of C06 can see it
 ("C06","torcheval/metrics/functional/classification/binned_precision_recall_curve.py","    labels = input >= threshold[:, None, None]","    labels = input >= threshold.to(input.dtype)[:, None, None]"), ("C08","torcheval/metrics/functional/ranking/hit_rate.py","    y_score = torch.gather(input, dim=-1, index=target.unsqueeze(dim=-1))","    input = input.float()\n    y_score = torch.gather(input, dim=-1, index=target.unsqueeze(dim=-1))"),
]
def run(i):
    prop,f,old,new = MUTS[i]
    base = tempfile.mkdtemp(prefix=f"mut{i}_", dir="/tmp")
    wt, vf = base+"/repo", base+"/verif"
    try:
        subprocess.run(["git","-C","/repo","worktree","add","-q","--detach",wt,"HEAD"],check=True)
        p=os.path.join(wt,f); s=open(p).read()
        if old not in s: return f"{prop} {f}: pattern not found"
        open(p,"w").write(s.replace(old,new,1))
        os.mkdir(vf)
        subprocess.run(f"git -C /verif archive HEAD | tar -x -C {vf} --exclude=seeded --exclude=replays", shell=True, check=True)
        subprocess.run(["rsync","-a","/verif/lean/.lake",vf+"/lean/"],check=True)
        r=subprocess.run([vf+"/check",prop,"--tier","quick"],cwd=vf,env=dict(os.environ,TE_REPO=wt),capture_output=True,text=True,timeout=1500)
        v=[l for l in r.stdout.split("\n") if l.startswith("VIOLATION")]
        return f"{prop} {os.path.basename(f)} [{old[:40]!r}]: exit {r.returncode}, {len(v)} VIOLATION, {'no-failing-input-found' if any('no-failing' in l for l in v) else 'failing input'}"
    finally:
        subprocess.run(["git","-C","/repo","worktree","remove","--force",wt]); shutil.rmtree(base,ignore_errors=True)
ONLY = [int(a) for a in sys.argv[1:]] or list(range(len(MUTS)))      # tools/mutbattery.py [index …]
with ThreadPoolExecutor(4) as ex:
    for r in ex.map(run, ONLY): print(r, flush=True)
