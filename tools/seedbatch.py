#!/usr/bin/env python3
"""seedbatch — confirm and file one round of seeded changes.

    tools/seedbatch.py <out_root> <letter,letter> [Cxx …]      e.g. tools/seedbatch.py /tmp/wt/out g,h C01 C02

For every <out_root>/<Cxx>/<letter>/ holding patch.diff + demo.py + meta.json: tools/seedconfirm.py (existing tests the
change touches still pass), then tools/seedkeep.py --from-head (registered checks of the COMMITTED /verif against the change in
scratch copies; files seeded/<Cxx>-<letter>/).  A change whose demo or tests do not behave as claimed is reported and not filed.
Runs up to $SEEDBATCH_JOBS (default 4) changes at a time."""
import json, os, subprocess, sys
from concurrent.futures import ThreadPoolExecutor
from pathlib import Path
V = Path(__file__).resolve().parent.parent
RELATED = {"C01": "C01,C12,C03", "C02": "C02,C15", "C03": "C03,C01,C12,C05", "C04": "C04,C03,C17,C01,C14", "C05": "C05,C17,C16", "C06": "C06,C16",
           "C07": "C07,C01,C03", "C08": "C08,C03", "C09": "C09,C10", "C10": "C10,C09", "C11": "C11,C01", "C12": "C12,C01,C04", "C13": "C13,C10",
           "C14": "C14,C18", "C15": "C15,C02", "C16": "C16,C05,C04", "C17": "C17,C04,C05", "C18": "C18,C14", "C19": "C19,C01,C13"}


def one(job):
    root, pid, letter = job
    d = Path(root) / pid / letter
    sid = f"{pid}-{letter}"
    if not all((d / f).exists() for f in ("patch.diff", "demo.py", "meta.json")):
        return f"{sid}: incomplete ({sorted(p.name for p in d.glob('*'))})"
    prev = None
    if (d / "confirm.json").exists() and os.environ.get("SEEDBATCH_RECONFIRM") != "1":
        try:
            prev = json.loads((d / "confirm.json").read_text())
        except ValueError:
            prev = None
    if prev and prev.get("tests") and prev.get("failed_not_in_baseline_always_fail") == []:
        c = subprocess.CompletedProcess([], 0, "", "")          # confirmed earlier in this round (same patch)
    else:
        c = subprocess.run([sys.executable, str(V / "tools" / "seedconfirm.py"), str(d)], capture_output=True, text=True)
    if c.returncode != 0:
        return f"{sid}: NOT CONFIRMED (existing tests) {c.stdout.strip()[-400:]}"
    k = subprocess.run([sys.executable, str(V / "tools" / "seedkeep.py"), str(d), sid, "--props", RELATED[pid], "--from-head"],
                       capture_output=True, text=True)
    return f"{sid}: " + (k.stdout.strip().split("\n")[-1] if k.stdout.strip() else k.stderr[-300:])


def main():
    root, letters = sys.argv[1], sys.argv[2].split(",")
    pids = sys.argv[3:] or sorted(RELATED)
    jobs = [(root, p, l) for p in pids for l in letters]
    with ThreadPoolExecutor(int(os.environ.get("SEEDBATCH_JOBS", "4"))) as ex:
        for r in ex.map(one, jobs):
            print(r, flush=True)


if __name__ == "__main__":
    main()
