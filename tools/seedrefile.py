#!/usr/bin/env python3
"""seedrefile — re-evaluate an already filed seeded change against the committed /verif and rewrite its meta.json.

    tools/seedrefile.py <id> --props C17,C04        (patch.diff / demo.py / the earlier test confirmation are kept)"""
import argparse, json, shutil, subprocess, sys, tempfile
from pathlib import Path
V = Path(__file__).resolve().parent.parent
ap = argparse.ArgumentParser(); ap.add_argument("id"); ap.add_argument("--props", required=True); a = ap.parse_args()
src = V / "seeded" / a.id
m = json.loads((src / "meta.json").read_text())
tmp = Path(tempfile.mkdtemp(prefix="seedrefile_", dir="/tmp"))
try:
    shutil.copy(src / "patch.diff", tmp / "patch.diff"); shutil.copy(src / "demo.py", tmp / "demo.py")
    c = m.get("confirmed_here") or {}
    (tmp / "meta.json").write_text(json.dumps({"property": m["breaks_property"], "summary": m["summary"], "what_it_needs_to_manifest": m["needs_to_manifest"],
                                                "files_touched": m["files_touched"], "tests_run": c.get("existing_tests_run_with_change") or []}))
    (tmp / "confirm.json").write_text(json.dumps({"tests": c.get("existing_tests_run_with_change"), "pytest_tail": c.get("existing_tests_result"),
                                                   "failed_not_in_baseline_always_fail": c.get("failures_not_in_baseline_always_fail")}))
    r = subprocess.run([sys.executable, str(V / "tools" / "seedkeep.py"), str(tmp), a.id, "--props", a.props, "--from-head"], capture_output=True, text=True)
    print((r.stdout.strip().split("\n") or [""])[-1][:300])
    if m.get("rebased"):
        n = json.loads((src / "meta.json").read_text()); n["rebased"] = m["rebased"]; (src / "meta.json").write_text(json.dumps(n, indent=1))
finally:
    shutil.rmtree(tmp, ignore_errors=True)
