#!/usr/bin/env python3
import json, sys, glob, jsonschema
V="/verif"
jsonschema.validate(json.load(open(f"{V}/MANIFEST.json")), json.load(open("/root/.vp/MANIFEST.schema.json")))
es=json.load(open("/root/.vp/EVIDENCE.schema.json"))
for f in sorted(glob.glob(f"{V}/evidence/*.json")):
    jsonschema.validate(json.load(open(f)), es); print("ok", f)
print("manifest ok")
# evidence level must equal the claimed category, and every claimed property needs an evidence file
_m = json.load(open("/verif/MANIFEST.json"))
_bad = 0
for _c in _m["checks"]:
    _p = "/verif/evidence/%s.json" % _c["property_id"]
    try:
        _e = json.load(open(_p))
    except FileNotFoundError:
        print("MISSING evidence", _p); _bad += 1; continue
    if _e["level"] != _c["level_claimed"]["category"]:
        print("LEVEL MISMATCH", _c["property_id"], _e["level"], "vs claimed", _c["level_claimed"]["category"]); _bad += 1
    if _e["level"] == "proof" and _e["coverage"].get("discharged") != _e["coverage"].get("obligations"):
        print("UNDISCHARGED", _c["property_id"], _e["coverage"].get("discharged"), "/", _e["coverage"].get("obligations")); _bad += 1
print("levels ok" if not _bad else f"{_bad} evidence problems")
sys.exit(1 if _bad else 0)
