#!/usr/bin/env python3
import json, sys, glob, jsonschema
V="/verif"
jsonschema.validate(json.load(open(f"{V}/MANIFEST.json")), json.load(open("/root/.vp/MANIFEST.schema.json")))
es=json.load(open("/root/.vp/EVIDENCE.schema.json"))
for f in sorted(glob.glob(f"{V}/evidence/*.json")):
    jsonschema.validate(json.load(open(f)), es); print("ok", f)
print("manifest ok")
