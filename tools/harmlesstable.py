#!/usr/bin/env python3
"""Markdown table of /verif/harmless/*/result.json (behaviour-preserving refactorings and the verdict of every check)."""
import json
from pathlib import Path
V = Path(__file__).resolve().parent.parent
print("| id | files | refactoring (author's summary) | checks run | alarms |")
print("|---|---|---|---|---|")
for d in sorted((V / "harmless").glob("*/result.json")):
    r = json.loads(d.read_text())
    cut = lambda s, n: (s[:n] + "…") if s and len(s) > n else (s or "")
    files = ", ".join(f.split("/")[-1] for f in (r.get("files_touched") or []))
    n = len(r["checks_run"]); ok = sum(1 for v in r["checks_run"].values() if v["exit"] == 0)
    alarms = "; ".join(f"{k}: {cut(v[0] if v else '', 140)}" for k, v in r["alarms"].items()) or "none"
    print(f"| {r['id']} | {files} | {cut(r.get('kind_of_refactoring'), 260)} | {ok}/{n} exit 0 | {alarms} |")
