#!/usr/bin/env python3
"""harmlesskeep — file a behaviour-preserving refactoring under /verif/harmless/<id>/ with the verdict of every check.

    tools/harmlesskeep.py <src_dir> <id> [--props C01,…]   (default: all 19)

<src_dir> holds patch.diff and note.json (written by an independent sub-agent that was given only a scratch worktree and
the instruction to change nothing observable).  tools/seedeval.py --no-demo applies the patch to a scratch worktree and
runs the registered quick checks of a scratch copy of /verif against it (TE_REPO); /repo and /verif are untouched.
Every check is expected to exit 0: an exit 1 here is a false alarm of the machinery.
"""
import argparse, json, shutil, subprocess, sys
from pathlib import Path

VERIF = Path(__file__).resolve().parent.parent
ALL = ",".join(f"C{i:02d}" for i in range(1, 20))


def main():
    ap = argparse.ArgumentParser()
    ap.add_argument("src"); ap.add_argument("id"); ap.add_argument("--props", default=ALL)
    ap.add_argument("--from-head", action="store_true")
    a = ap.parse_args()
    src = Path(a.src)
    p = subprocess.run([sys.executable, str(VERIF / "tools" / "seedeval.py"), str(src), "--no-demo", "--props", a.props] + (["--from-head"] if a.from_head else []),
                       capture_output=True, text=True)
    summ = None
    for l in p.stdout.split("\n"):
        if l.startswith("SUMMARY "):
            summ = json.loads(l[8:])
    if summ is None:
        print(p.stdout[-2000:], p.stderr[-2000:]); return 2
    note = json.loads((src / "note.json").read_text())
    alarms = {k: [r.get("what", "")[:400] for r in v["replays"]][:2] for k, v in summ["checks"].items() if v["exit"] != 0}
    out = {"id": a.id, "area": note.get("area"), "files_touched": note.get("files_touched"),
           "kind_of_refactoring": note.get("kind_of_refactoring"),
           "author": "independent sub-agent given only a scratch worktree and the instruction to preserve behaviour exactly",
           "author_differential": note.get("differential_script") or note.get("why_behaviour_is_preserved", "")[:600],
           "checks_run": {k: {"exit": v["exit"], "wall_s": v["wall_s"]} for k, v in summ["checks"].items()},
           "alarms": alarms}
    dst = VERIF / "harmless" / a.id
    dst.mkdir(parents=True, exist_ok=True)
    if a.props != ALL and (dst / "result.json").exists():      # a partial re-run refreshes only the named checks
        old = json.loads((dst / "result.json").read_text())
        old["checks_run"].update(out["checks_run"])
        old["alarms"] = {k: v for k, v in old["alarms"].items() if k not in out["checks_run"]}
        old["alarms"].update(alarms)
        out = old
        alarms = out["alarms"]
    shutil.copy(src / "patch.diff", dst / "patch.diff")
    (dst / "result.json").write_text(json.dumps(out, indent=1))
    print(a.id, "alarms:", sorted(alarms) or "none")
    return 0


if __name__ == "__main__":
    sys.exit(main())
