#!/venv/bin/python
"""searchprobe — run every property module's search() on the UNCHANGED tree: it must find nothing that is not a
recorded finding (search() normally runs only after a proof obligation or the correspondence broke, so a false
alarm hidden in it would never show on the pristine tree otherwise)."""
import importlib, json, sys, time
from pathlib import Path
V = Path(__file__).resolve().parent.parent
sys.path.insert(0, str(V))
from harness.common import Report
from harness import runner
props = sys.argv[1:] or [f"C{i:02d}" for i in range(1, 20)]
known, _ = runner.load_findings()
bad = 0
for p in props:
    mod = importlib.import_module(f"harness.props.{p.lower()}")
    if not hasattr(mod, "search"):
        print(p, "no search()"); continue
    rep = Report(p, "quick", 0)
    t0 = time.time()
    try:
        mod.search(rep)
    except Exception as e:  # noqa: BLE001
        print(p, "search() raised", type(e).__name__, str(e)[:200]); bad += 1; continue
    sigs = {k["signature"] for k in known if k.get("property") == p}
    unl = sorted({v["signature"] for v in rep.violations if v["signature"] not in sigs})
    print(f"{p}: search() {time.time()-t0:.0f}s, {len(rep.violations)} violations, unlisted: {unl[:5]}")
    bad += bool(unl)
sys.exit(1 if bad else 0)
