#!/usr/bin/env python3
"""seedeval — run registered checks against a seeded change WITHOUT touching /repo or /verif.

    tools/seedeval.py <seed_dir> [--props C01,C03] [--tier quick] [--keep]

<seed_dir> holds patch.diff, demo.py (exit 0 on the pristine tree, 1 on the changed tree) and meta.json.
The change is applied to a scratch worktree of /repo's HEAD; /verif (working tree incl. the Lean build)
is copied next to it, and the checks run there with TE_REPO pointing at the scratch tree — the same
code path as `git -C /repo apply …; ./check …; git -C /repo checkout -- .`, but safe to use while other
work goes on in /repo and /verif.  Prints one line per check and a JSON summary; exit 0 iff the demo
behaves as claimed and at least one check reports a VIOLATION.
"""
import argparse, json, os, shutil, subprocess, sys, tempfile, time
from pathlib import Path

VERIF = Path(__file__).resolve().parent.parent
REPO = "/repo"
PY = "/venv/bin/python"


def sh(cmd, cwd=None, env=None, timeout=3600):
    p = subprocess.run(cmd, cwd=cwd, env=env, capture_output=True, text=True, timeout=timeout)
    return p.returncode, p.stdout + p.stderr


def main():
    ap = argparse.ArgumentParser()
    ap.add_argument("seed_dir")
    ap.add_argument("--props", default="")
    ap.add_argument("--tier", default="quick")
    ap.add_argument("--keep", action="store_true")
    ap.add_argument("--seed", default="0")
    ap.add_argument("--from-head", action="store_true", help="scratch /verif = committed HEAD (+ the current Lean build output), not the working tree — use while builders are editing /verif")
    ap.add_argument("--no-demo", action="store_true", help="harmless-refactoring mode: no demo.py, every check is expected to exit 0")
    a = ap.parse_args()
    sd = Path(a.seed_dir).resolve()
    meta = json.loads((sd / "meta.json").read_text()) if (sd / "meta.json").exists() else {}
    props = [p for p in a.props.split(",") if p] or [meta.get("property")]
    base = Path(tempfile.mkdtemp(prefix="seedeval_", dir="/tmp"))
    wt, vf = base / "repo", base / "verif"
    out = {"seed": str(sd), "props": props, "tier": a.tier, "checks": {}}
    try:
        rc, o = sh(["git", "-C", REPO, "worktree", "add", "-q", "--detach", str(wt), "HEAD"])
        if rc:
            print("worktree failed", o); return 2
        env0 = dict(os.environ, PYTHONPATH=REPO)
        env1 = dict(os.environ, PYTHONPATH=str(wt))
        rc0, o0 = (0, "") if a.no_demo else sh([PY, str(sd / "demo.py")], cwd=str(base), env=dict(os.environ, PYTHONPATH=str(wt)))
        rc, o = sh(["git", "-C", str(wt), "apply", str(sd / "patch.diff")])
        if rc:
            print("patch does not apply:", o); out["patch"] = "does-not-apply"; print(json.dumps(out)); return 2
        rc1, o1 = (1, "") if a.no_demo else sh([PY, str(sd / "demo.py")], cwd=str(base), env=env1)
        out["demo_pristine_exit"], out["demo_patched_exit"] = rc0, rc1
        out["demo_patched_tail"] = o1.strip().split("\n")[-3:]
        print(f"demo: pristine exit {rc0}, patched exit {rc1}")
        if a.from_head:
            vf.mkdir()
            subprocess.run(f"git -C {VERIF} archive HEAD | tar -x -C {vf} --exclude=seeded --exclude=replays", shell=True, check=True)
            sh(["rsync", "-a", str(VERIF / "lean" / ".lake"), str(vf / "lean") + "/"])
            if (VERIF / "lean" / "TE.lean").exists():
                shutil.copy(VERIF / "lean" / "TE.lean", vf / "lean" / "TE.lean")
        else:
            sh(["rsync", "-a", "--exclude", ".git", "--exclude", "replays", "--exclude", "seeded", str(VERIF) + "/", str(vf)])
        env = dict(os.environ, TE_REPO=str(wt), VERIF_SEED=a.seed)
        env.pop("PYTHONPATH", None)
        for p in props:
            t0 = time.time()
            try:
                rc, o = sh([str(vf / "check"), p, "--tier", a.tier], cwd=str(vf), env=env, timeout=3000)
            except subprocess.TimeoutExpired:
                rc, o = 2, "TIMEOUT"
            lines = [l for l in o.split("\n") if l.startswith(("VIOLATION", "KNOWN-FINDING", "INFRA", p + " "))]
            viol = [l for l in lines if l.startswith("VIOLATION")]
            reps = []
            for l in viol:
                try:
                    path = l.split("replay=")[1].split()[0]
                    d = json.loads(Path(path).read_text())
                    reps.append({"kind": d.get("kind"), "signature": d.get("signature"),
                                 "what": str(d.get("what") or d.get("no_longer_checks"))[:400]})
                except Exception as e:  # noqa: BLE001
                    reps.append({"error": str(e)})
            # the registered replay command on the first failing-input replay: must fail on the changed tree, hold on /repo
            rp = None
            for l, r_ in zip(viol, reps):
                if r_.get("kind") == "failing-input":
                    path = l.split("replay=")[1].split()[0]
                    rc_c, _ = sh([str(vf / "check"), p, "--replay", path], cwd=str(vf), env=env, timeout=900)
                    env_p = dict(env, TE_REPO=REPO)
                    rc_p, _ = sh([str(vf / "check"), p, "--replay", path], cwd=str(vf), env=env_p, timeout=900)
                    rp = {"replay_exit_on_changed_tree": rc_c, "replay_exit_on_pristine_tree": rc_p}
                    break
            out["checks"][p] = {"exit": rc, "violations": viol, "replays": reps, "wall_s": round(time.time() - t0, 1),
                                "summary": [l for l in lines if l.startswith(p + " ")], "replay_cmd": rp}
            print(f"{p}: exit {rc}; {len(viol)} VIOLATION line(s); {time.time()-t0:.0f}s")
            for r in reps[:4]:
                print("   ", json.dumps(r)[:300])
            if rp:
                print("    replay cmd:", rp)
            if rc not in (0, 1):
                print("    tail:", o.strip().split("\n")[-5:])
    finally:
        if not a.keep:
            sh(["git", "-C", REPO, "worktree", "remove", "--force", str(wt)])
            shutil.rmtree(base, ignore_errors=True)
            sh(["git", "-C", REPO, "worktree", "prune"])
    print("SUMMARY " + json.dumps(out))
    detected = any(c["exit"] == 1 for c in out["checks"].values())
    ok_demo = out.get("demo_pristine_exit") == 0 and out.get("demo_patched_exit") == 1
    return 0 if (detected and ok_demo) else 1


if __name__ == "__main__":
    sys.exit(main())
