#!/usr/bin/env python3
"""Regenerate MANIFEST.json from the table below (kept in one place so it is always valid)."""
import json
from pathlib import Path
V = Path(__file__).resolve().parent.parent
props = [json.loads(l) for l in (V / "properties.jsonl").read_text().split("\n") if l.strip()]
ids = [p["id"] for p in props]

CLAIMS = json.loads((V / "tools" / "claims.json").read_text())

checks, na = [], []
for pid in ids:
    c = CLAIMS.get(pid)
    if not c or c.get("not_applicable"):
        na.append({"property_id": pid, "reason": (c or {}).get("not_applicable", "no check built yet for this property in this round; see DESIGN.md §0")})
        continue
    checks.append({
        "property_id": pid,
        "quick_cmd": f"./check {pid} --tier quick",
        "thorough_cmd": f"./check {pid} --tier thorough",
        "evidence_file": f"/verif/evidence/{pid}.json",
        "replay_cmd_template": f"./check {pid} --replay {{path}}",
        "engine": "lean4-proof+correspondence",
        "level_claimed": {"category": c.get("category", "proof"), "text": c["text"], "design_ref": c.get("design_ref", f"DESIGN.md §6 {pid}")},
        "level_note": c["note"],
        "technique": c["technique"],
    })
m = {
    "version": 1,
    "setup_cmd": "./setup.sh",
    "hooks": {"guard": "PYTORCH_TORCHEVAL_VERIF", "enable": "no hooks are compiled into /repo: checks import /repo's working tree directly (PYTHONPATH=/repo); the variable is set by the harness but nothing in /repo reads it",
              "baseline_off_cmd": "cd /repo && /venv/bin/python -m pytest -ra -q -p no:cacheprovider --timeout=900 --continue-on-collection-errors",
              "source_commits": [], "add_only": True},
    "engines": [{"name": "lean4-proof+correspondence", "path": "/verif/lean + /verif/harness",
                 "serves_properties": [c["property_id"] for c in checks],
                 "kind_free_text": "Lean 4 models/specs/theorems (lake build + #print axioms audit) tied to /repo by a differential correspondence harness and by translators that regenerate lean/TE/Gen from the source on every run"}],
    "checks": checks,
    "notes": "fix: commits in /repo are listed in known_findings.jsonl (fixed: lines). See DESIGN.md.",
    "not_applicable": na,
}
(V / "MANIFEST.json").write_text(json.dumps(m, indent=1) + "\n")
print("claimed", [c["property_id"] for c in checks], "n/a", [x["property_id"] for x in na])
