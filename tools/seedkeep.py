#!/usr/bin/env python3
"""seedkeep — file a confirmed seeded change under /verif/seeded/<id>/.

    tools/seedkeep.py <src_dir> <id> --props C01,C07 [--tier quick] [--seed 0]

Runs tools/seedeval.py on it (registered checks against the change, /repo untouched), takes
<src_dir>/confirm.json (tools/seedconfirm.py: the existing tests the change touches still pass) and writes
seeded/<id>/{patch.diff, demo.py, meta.json}.  meta.json keeps the author's description and records what
was run here and which checks caught it.
"""
import argparse, json, shutil, subprocess, sys
from pathlib import Path

VERIF = Path(__file__).resolve().parent.parent


def main():
    ap = argparse.ArgumentParser()
    ap.add_argument("src"); ap.add_argument("id")
    ap.add_argument("--props", required=True); ap.add_argument("--tier", default="quick"); ap.add_argument("--seed", default="0")
    ap.add_argument("--from-head", action="store_true")
    a = ap.parse_args()
    src = Path(a.src)
    p = subprocess.run([sys.executable, str(VERIF / "tools" / "seedeval.py"), str(src), "--props", a.props, "--tier", a.tier, "--seed", a.seed] + (["--from-head"] if a.from_head else []),
                       capture_output=True, text=True)
    summ = None
    for l in p.stdout.split("\n"):
        if l.startswith("SUMMARY "):
            summ = json.loads(l[8:])
    if summ is None:
        print(p.stdout[-2000:], p.stderr[-2000:]); return 2
    meta = json.loads((src / "meta.json").read_text())
    conf = json.loads((src / "confirm.json").read_text()) if (src / "confirm.json").exists() else None
    caught = [k for k, v in summ["checks"].items() if v["exit"] == 1]
    missed = [k for k, v in summ["checks"].items() if v["exit"] == 0]
    out = {
        "id": a.id,
        "breaks_property": meta.get("property"),
        "summary": meta.get("summary"),
        "needs_to_manifest": meta.get("what_it_needs_to_manifest"),
        "files_touched": meta.get("files_touched"),
        "author": "independent sub-agent given only the property text and a scratch worktree",
        "confirmed_here": {
            "demo_exit_on_pristine_tree": summ.get("demo_pristine_exit"),
            "demo_exit_with_change": summ.get("demo_patched_exit"),
            "existing_tests_run_with_change": (conf or {}).get("tests"),
            "existing_tests_result": (conf or {}).get("pytest_tail"),
            "failures_not_in_baseline_always_fail": (conf or {}).get("failed_not_in_baseline_always_fail"),
            "how": "tools/seedconfirm.py (patched scratch worktree, pytest on the touched test files) and tools/seedeval.py "
                   "(patched scratch worktree, TE_REPO=<worktree> ./check <id> --tier " + a.tier + ")",
        },
        "checks_run": {k: {"exit": v["exit"], "wall_s": v["wall_s"],
                           "violations": [r.get("signature") or r.get("kind") for r in v["replays"]][:6],
                           "first_replay": (v["replays"][0] if v["replays"] else None),
                           "replay_cmd": v.get("replay_cmd")} for k, v in summ["checks"].items()},
        "caught_by": caught, "not_caught_by": missed, "tier": a.tier, "verif_seed": a.seed,
    }
    dst = VERIF / "seeded" / a.id
    dst.mkdir(parents=True, exist_ok=True)
    shutil.copy(src / "patch.diff", dst / "patch.diff")
    shutil.copy(src / "demo.py", dst / "demo.py")
    (dst / "meta.json").write_text(json.dumps(out, indent=1))
    print(a.id, "caught by", caught, "missed by", missed, "| demo", summ.get("demo_pristine_exit"), summ.get("demo_patched_exit"),
          "| tests:", (conf or {}).get("pytest_tail"), (conf or {}).get("failed_not_in_baseline_always_fail"))
    return 0


if __name__ == "__main__":
    sys.exit(main())
