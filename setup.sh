#!/bin/bash
# setup_cmd: build the Lean library (models, specs, lemmas, property theorems) and the driver, offline.
set -e
cd "$(dirname "$0")/lean"
{
  find TE -name '*.lean' ! -path 'TE/Audit/*' ! -path 'TE/Driver/*' | sort | sed 's/\.lean$//; s|/|.|g; s/^/import /'
} > TE.lean
lake build TE tedriver 2>&1 | tail -5
test -x .lake/build/bin/tedriver
echo "setup ok"
