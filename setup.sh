#!/bin/bash
# setup_cmd: build the Lean library (models, specs, lemmas, property theorems) and the driver, offline.
cd "$(dirname "$0")/lean" || exit 1
{
  find TE -name '*.lean' ! -path 'TE/Audit/*' ! -path 'TE/Driver/*' | sort | sed 's/\.lean$//; s|/|.|g; s/^/import /'
} > TE.lean
# regenerate the translator outputs from /repo's working tree first (they are imported by Props)
( cd .. && /venv/bin/python -c "
import sys; sys.path.insert(0,'.')
from harness.translators import states, effects
states.generate(); effects.generate()
for m in ('dtypes','shapes','defaults','atomicity','indexsites','plumbing','winplumb','kernels','syncskel'):
    try:
        __import__('harness.translators.'+m, fromlist=['generate']).generate()
    except Exception:
        pass      # the committed copy of that Gen file stays; the property's own check regenerates it anyway
" >/dev/null 2>&1 )
lake build tedriver 2>&1 | tail -3
for f in TE/Props/C*.lean; do
  m=$(echo "$f" | sed 's/\.lean$//; s|/|.|g')
  lake build "$m" 2>&1 | tail -1
done
lake build TE 2>&1 | tail -2
test -x .lake/build/bin/tedriver || { echo "setup FAILED: driver missing"; exit 1; }
echo "setup ok"
